//! C08 — query results equal the meaning of their constraints, however evaluated.
//!
//! Bounded-exhaustive enumeration of *programs* (queries from a small grammar) x small stores.
//! Seven oracles (DESIGN.md §4 C08):
//!  o1 order-independence (primary `init_state_*` vs secondary `update_state_*` implementation of every
//!     constraint; all orderings of pairs / triples; conjunction = intersection),
//!  o2 UNION = set union, duplicate-free (+ exhaustive `Handles::union/intersection/contains`),
//!  o3 LIMIT b e = Python slice `[b : e or None]` (+ exhaustive `LimitIterator::limit`),
//!  o4 sub-query = nested iteration (inner query re-evaluated with the variable bound via context variables),
//!  o5 three spellings: STAMQL text, `Query::new().with_constraint()`, iterator API,
//!  o6 reference meaning of the unambiguous constraints, computed from the boring model of the store,
//!  o7 ADD / DELETE = the equivalent direct calls (canonical dumps equal).

use crate::model::{FAnn, FRef, Model};
use crate::ops::*;
use crate::report::{Coverage, Reporter, Tier};
use crate::util::{catch, msg_class};
use rayon::prelude::*;
use serde::{Deserialize, Serialize};
use serde_json::{json, Value};
use stam::*;
use std::borrow::Cow;
use std::collections::{BTreeMap, BTreeSet};
use std::sync::atomic::{AtomicU64, Ordering};
use std::sync::Mutex;

// =====================================================================================================
// query specifications (serialisable, independent of the library's types)
// =====================================================================================================

#[derive(Clone, Copy, Debug, PartialEq, Eq, PartialOrd, Ord, Hash, Serialize, Deserialize)]
pub enum Rt {
    Annotation,
    Data,
    Key,
    DataSet,
    Text,
    Resource,
}

pub const RTS: [Rt; 6] = [Rt::Annotation, Rt::Data, Rt::Key, Rt::DataSet, Rt::Text, Rt::Resource];

impl Rt {
    pub fn kw(&self) -> &'static str {
        match self {
            Rt::Annotation => "ANNOTATION",
            Rt::Data => "DATA",
            Rt::Key => "KEY",
            Rt::DataSet => "DATASET",
            Rt::Text => "TEXT",
            Rt::Resource => "RESOURCE",
        }
    }
    fn ty(&self) -> Type {
        match self {
            Rt::Annotation => Type::Annotation,
            Rt::Data => Type::AnnotationData,
            Rt::Key => Type::DataKey,
            Rt::DataSet => Type::AnnotationDataSet,
            Rt::Text => Type::TextSelection,
            Rt::Resource => Type::TextResource,
        }
    }
}

#[derive(Clone, Debug, PartialEq, Eq, PartialOrd, Ord, Hash, Serialize, Deserialize)]
pub enum Vs {
    Any,
    Null,
    True,
    EqS(String),
    NeS(String),
    EqI(i64),
    GtI(i64),
    ListS(Vec<String>),
}

#[derive(Clone, Debug, PartialEq, Eq, PartialOrd, Ord, Hash, Serialize, Deserialize)]
pub enum Cs {
    Id(String),
    Key { set: String, key: String, meta: bool },
    KeyVal { set: String, key: String, op: Vs, meta: bool },
    Val(Vs),
    Text { t: String, nocase: bool },
    Regex(String),
    Res { id: String, meta: bool, off: Option<(usize, usize)> },
    Set { id: String, meta: bool },
    Ann { id: String, meta: bool, rec: bool },
    Union(Vec<Cs>),
    Limit(isize, isize),
    // constraints that refer to a variable of an outer query
    Rel { var: String, op: String },
    AnnVar { var: String, meta: bool, rec: bool },
    TextVar(String),
    DataVar(String),
    KeyVar(String),
    ResVar { var: String, meta: bool },
    SetVar(String),
}

#[derive(Clone, Debug, PartialEq, Eq, Serialize, Deserialize)]
pub struct Qs {
    pub rt: Rt,
    pub name: Option<String>,
    pub optional: bool,
    pub cons: Vec<Cs>,
    pub subs: Vec<Qs>,
}

impl Qs {
    fn flat(rt: Rt, cons: Vec<Cs>) -> Qs {
        Qs { rt, name: None, optional: false, cons, subs: Vec::new() }
    }
    fn named(rt: Rt, name: &str, cons: Vec<Cs>) -> Qs {
        Qs { rt, name: Some(name.to_string()), optional: false, cons, subs: Vec::new() }
    }
    fn with_sub(mut self, sub: Qs) -> Qs {
        self.subs.push(sub);
        self
    }
    fn opt(mut self, o: bool) -> Qs {
        self.optional = o;
        self
    }
}

pub const REL_OPS: [&str; 10] = ["EQUALS", "EMBEDS", "EMBEDDED", "OVERLAPS", "PRECEDES", "SUCCEEDS", "SAMEBEGIN", "SAMEEND", "BEFORE", "AFTER"];

fn rel_op(name: &str) -> Option<TextSelectionOperator> {
    Some(match name {
        "EQUALS" => TextSelectionOperator::equals(),
        "EMBEDS" => TextSelectionOperator::embeds(),
        "EMBEDDED" => TextSelectionOperator::embedded(),
        "OVERLAPS" => TextSelectionOperator::overlaps(),
        "PRECEDES" => TextSelectionOperator::precedes(),
        "SUCCEEDS" => TextSelectionOperator::succeeds(),
        "SAMEBEGIN" => TextSelectionOperator::samebegin(),
        "SAMEEND" => TextSelectionOperator::sameend(),
        "BEFORE" => TextSelectionOperator::before(),
        "AFTER" => TextSelectionOperator::after(),
        _ => return None,
    })
}

fn vs_op<'a>(v: &'a Vs) -> DataOperator<'a> {
    match v {
        Vs::Any => DataOperator::Any,
        Vs::Null => DataOperator::Null,
        Vs::True => DataOperator::True,
        Vs::EqS(s) => DataOperator::Equals(Cow::Borrowed(s.as_str())),
        Vs::NeS(s) => DataOperator::Not(Box::new(DataOperator::Equals(Cow::Borrowed(s.as_str())))),
        Vs::EqI(i) => DataOperator::EqualsInt(*i as isize),
        Vs::GtI(i) => DataOperator::GreaterThan(*i as isize),
        Vs::ListS(l) => DataOperator::Or(l.iter().map(|x| DataOperator::Equals(Cow::Borrowed(x.as_str()))).collect()),
    }
}

fn qual(meta: bool) -> SelectionQualifier {
    if meta {
        SelectionQualifier::Metadata
    } else {
        SelectionQualifier::Normal
    }
}
fn depth(rec: bool) -> AnnotationDepth {
    if rec {
        AnnotationDepth::Max
    } else {
        AnnotationDepth::One
    }
}

/// the programmatic spelling of a constraint
fn build_c<'a>(c: &'a Cs) -> Result<Constraint<'a>, String> {
    Ok(match c {
        Cs::Id(id) => Constraint::Id(id.as_str()),
        Cs::Key { set, key, meta } => Constraint::DataKey { set: set.as_str(), key: key.as_str(), qualifier: qual(*meta) },
        Cs::KeyVal { set, key, op, meta } => Constraint::KeyValue { set: set.as_str(), key: key.as_str(), operator: vs_op(op), qualifier: qual(*meta) },
        Cs::Val(op) => Constraint::Value(vs_op(op), SelectionQualifier::Normal),
        Cs::Text { t, nocase } => Constraint::Text(t.as_str(), if *nocase { TextMode::CaseInsensitive } else { TextMode::Exact }),
        Cs::Regex(r) => Constraint::Regex(regex::Regex::new(r).map_err(|e| format!("bad regex in harness: {}", e))?),
        Cs::Res { id, meta, off } => Constraint::TextResource(id.as_str(), qual(*meta), off.map(|(b, e)| Offset::simple(b, e))),
        Cs::Set { id, meta } => Constraint::DataSet(id.as_str(), qual(*meta)),
        Cs::Ann { id, meta, rec } => Constraint::Annotation(id.as_str(), qual(*meta), depth(*rec), None),
        Cs::Union(v) => {
            let mut out = Vec::new();
            for x in v {
                out.push(build_c(x)?);
            }
            Constraint::Union(out)
        }
        Cs::Limit(b, e) => Constraint::Limit { begin: *b, end: *e },
        Cs::Rel { var, op } => Constraint::TextRelation { var: var.as_str(), operator: rel_op(op).ok_or_else(|| format!("unknown relation {}", op))? },
        Cs::AnnVar { var, meta, rec } => Constraint::AnnotationVariable(var.as_str(), qual(*meta), depth(*rec), None),
        Cs::TextVar(v) => Constraint::TextVariable(v.as_str()),
        Cs::DataVar(v) => Constraint::DataVariable(v.as_str(), SelectionQualifier::Normal),
        Cs::KeyVar(v) => Constraint::KeyVariable(v.as_str(), SelectionQualifier::Normal),
        Cs::ResVar { var, meta } => Constraint::ResourceVariable(var.as_str(), qual(*meta), None),
        Cs::SetVar(v) => Constraint::DataSetVariable(v.as_str(), SelectionQualifier::Normal),
    })
}

/// the programmatic spelling of a query (`Query::new().with_constraint()...with_subquery()`)
fn build_q<'a>(q: &'a Qs, with_subs: bool) -> Result<Query<'a>, String> {
    let mut out = Query::new(QueryType::Select, Some(q.rt.ty()), q.name.as_deref());
    if q.optional {
        out = out.with_qualifier(QueryQualifier::Optional);
    }
    for c in &q.cons {
        out = out.with_constraint(build_c(c)?);
    }
    if with_subs {
        for s in &q.subs {
            out = out.with_subquery(build_q(s, true)?);
        }
    }
    Ok(out)
}

fn vs_text(v: &Vs) -> String {
    match v {
        Vs::Any => "= any".into(),
        Vs::Null => "= null".into(),
        Vs::True => "= true".into(),
        Vs::EqS(s) => format!("= \"{}\"", s),
        Vs::NeS(s) => format!("!= \"{}\"", s),
        Vs::EqI(i) => format!("= {}", i),
        Vs::GtI(i) => format!("> {}", i),
        Vs::ListS(l) => format!("= \"{}\"", l.join("|")),
    }
}

fn as_meta(meta: bool) -> &'static str {
    if meta {
        " AS METADATA"
    } else {
        ""
    }
}

/// STAMQL spelling of a constraint without the closing ';'. `None` = the documented syntax has no form for it.
fn text_c(c: &Cs) -> Option<String> {
    Some(match c {
        Cs::Id(id) => format!("ID \"{}\"", id),
        Cs::Key { set, key, meta } => format!("DATA{} \"{}\" \"{}\"", as_meta(*meta), set, key),
        Cs::KeyVal { set, key, op, meta } => format!("DATA{} \"{}\" \"{}\" {}", as_meta(*meta), set, key, vs_text(op)),
        Cs::Val(op) => format!("VALUE {}", vs_text(op)),
        Cs::Text { t, nocase: false } => format!("TEXT \"{}\"", t),
        Cs::Text { t, nocase: true } => format!("TEXT AS NOCASE \"{}\"", t),
        Cs::Regex(r) => format!("TEXT AS REGEX \"{}\"", r),
        Cs::Res { id, meta, off } => match off {
            None => format!("RESOURCE{} \"{}\"", as_meta(*meta), id),
            Some((b, e)) => format!("RESOURCE{} \"{}\" OFFSET {} {}", as_meta(*meta), id, b, e),
        },
        Cs::Set { id, meta } => format!("DATASET{} \"{}\"", as_meta(*meta), id),
        Cs::Ann { id, meta, rec } => match (meta, rec) {
            (false, false) => format!("ANNOTATION \"{}\"", id),
            (true, false) => format!("ANNOTATION AS METADATA \"{}\"", id),
            (true, true) => format!("ANNOTATION AS METADATA RECURSIVE \"{}\"", id),
            (false, true) => return None, // RECURSIVE is only recognised after AS <qualifier>
        },
        Cs::Union(v) => {
            let mut parts = Vec::new();
            for x in v {
                parts.push(text_c(x)?);
            }
            format!("[ {} ]", parts.join(" OR "))
        }
        Cs::Limit(b, e) => format!("LIMIT {} {}", b, e),
        Cs::Rel { var, op } => format!("RELATION ?{} {}", var, op),
        Cs::AnnVar { var, meta, rec } => match (meta, rec) {
            (false, false) => format!("ANNOTATION ?{}", var),
            (true, false) => format!("ANNOTATION AS METADATA ?{}", var),
            (true, true) => format!("ANNOTATION AS METADATA RECURSIVE ?{}", var),
            (false, true) => return None,
        },
        Cs::TextVar(v) => format!("TEXT ?{}", v),
        Cs::DataVar(v) => format!("DATA ?{}", v),
        Cs::KeyVar(v) => format!("KEY ?{}", v),
        Cs::ResVar { var, meta } => format!("RESOURCE{} ?{}", as_meta(*meta), var),
        Cs::SetVar(v) => format!("DATASET ?{}", v),
    })
}

/// STAMQL spelling of a query
fn text_q(q: &Qs) -> Option<String> {
    let mut s = String::from("SELECT ");
    if q.optional {
        s.push_str("OPTIONAL ");
    }
    s.push_str(q.rt.kw());
    if let Some(n) = &q.name {
        s.push_str(" ?");
        s.push_str(n);
    }
    if !q.cons.is_empty() {
        s.push_str(" WHERE");
        for c in &q.cons {
            s.push(' ');
            s.push_str(&text_c(c)?);
            s.push(';');
        }
    }
    if !q.subs.is_empty() {
        s.push_str(" { ");
        for (i, sub) in q.subs.iter().enumerate() {
            if i > 0 {
                s.push_str(" | ");
            }
            s.push_str(&text_q(sub)?);
        }
        s.push_str(" }");
    }
    Some(s)
}

fn uses_as_qualifier(q: &Qs) -> bool {
    fn c_as(c: &Cs) -> bool {
        match c {
            Cs::Union(v) => v.iter().any(c_as),
            other => text_c(other).map(|t| t.contains(" AS ")).unwrap_or(false),
        }
    }
    q.cons.iter().any(c_as) || q.subs.iter().any(uses_as_qualifier)
}

// ---- kinds (signature vocabulary) ---------------------------------------------------------------------

fn vs_class(v: &Vs) -> &'static str {
    match v {
        Vs::Any => "=any",
        Vs::Null => "=null",
        Vs::True => "=true",
        Vs::EqS(_) => "=str",
        Vs::NeS(_) => "!=str",
        Vs::EqI(_) => "=int",
        Vs::GtI(_) => ">int",
        Vs::ListS(_) => "=list",
    }
}

/// coarse kind: the match arm of init_state_* / update_state_* that handles the constraint
fn coarse(c: &Cs) -> String {
    match c {
        Cs::Id(_) => "ID".into(),
        Cs::Key { meta, .. } => format!("DATA:key{}", if *meta { ":meta" } else { "" }),
        Cs::KeyVal { meta, .. } => format!("DATA:key=value{}", if *meta { ":meta" } else { "" }),
        Cs::Val(_) => "VALUE".into(),
        Cs::Text { nocase: false, .. } => "TEXT".into(),
        Cs::Text { nocase: true, .. } => "TEXT:nocase".into(),
        Cs::Regex(_) => "TEXT:regex".into(),
        Cs::Res { meta, off, .. } => format!("RESOURCE{}{}", if *meta { ":meta" } else { "" }, if off.is_some() { ":offset" } else { "" }),
        Cs::Set { meta, .. } => format!("DATASET{}", if *meta { ":meta" } else { "" }),
        Cs::Ann { meta, rec, .. } => format!("ANNOTATION{}{}", if *meta { ":meta" } else { "" }, if *rec { ":rec" } else { "" }),
        Cs::Union(v) => {
            let mut k: Vec<String> = v.iter().map(coarse).collect();
            k.sort();
            format!("UNION[{}]", k.join("+"))
        }
        Cs::Limit(..) => "LIMIT".into(),
        Cs::Rel { .. } => "RELATION?".into(),
        Cs::AnnVar { meta, rec, .. } => format!("ANNOTATION?{}{}", if *meta { ":meta" } else { "" }, if *rec { ":rec" } else { "" }),
        Cs::TextVar(_) => "TEXT?".into(),
        Cs::DataVar(_) => "DATA?".into(),
        Cs::KeyVar(_) => "KEY?".into(),
        Cs::ResVar { meta, .. } => format!("RESOURCE?{}", if *meta { ":meta" } else { "" }),
        Cs::SetVar(_) => "DATASET?".into(),
    }
}

/// does the constraint name an item that does not exist in the store (for result type `rt`)?
fn missing_ref(c: &Cs, m: &Model, rt: Rt) -> bool {
    let has_key = |set: &str, key: &str| m.set_idx(set).and_then(|s| m.key_idx(s, key)).is_some();
    match c {
        Cs::Id(id) => match rt {
            Rt::Annotation => m.ann_idx(id).is_none(),
            Rt::Resource => m.res_idx(id).is_none(),
            Rt::DataSet => m.set_idx(id).is_none(),
            _ => false,
        },
        Cs::Key { set, key, .. } | Cs::KeyVal { set, key, .. } => !has_key(set, key),
        Cs::Res { id, .. } => m.res_idx(id).is_none(),
        Cs::Set { id, .. } => m.set_idx(id).is_none(),
        Cs::Ann { id, .. } => m.ann_idx(id).is_none(),
        Cs::Union(v) => v.iter().any(|x| missing_ref(x, m, rt)),
        _ => false,
    }
}

/// fine kind: coarse kind + operator class + peculiarities of the argument
fn fine(c: &Cs, m: &Model, rt: Rt) -> String {
    let mut k = match c {
        Cs::KeyVal { op, .. } => format!("{}[{}]", coarse(c), vs_class(op)),
        Cs::Val(op) => format!("VALUE[{}]", vs_class(op)),
        Cs::Text { t, nocase: true } if t.to_lowercase() != *t => "TEXT:nocase[uppercase-needle]".to_string(),
        Cs::Union(v) => {
            let mut k: Vec<String> = v.iter().map(|x| fine(x, m, rt)).collect();
            k.sort();
            return format!("UNION[{}]", k.join("+"));
        }
        _ => coarse(c),
    };
    if missing_ref(c, m, rt) {
        k.push_str("[missing]");
    }
    k
}

// =====================================================================================================
// stores
// =====================================================================================================

pub const TEXT1: &str = "a\u{e9} \u{1d11e}d a\u{e9}"; // 8 codepoints, multi-byte, "aé" occurs twice
pub const TEXT2: &str = "Ab ab";

fn tx(res: &str, b: usize, e: usize) -> TSimple {
    TSimple::Text { res: res.into(), off: Off::simple(b, e) }
}
fn d(set: &str, key: &str, v: Val) -> DataT {
    DataT::New { set: set.into(), key: key.into(), val: v, id: None }
}
fn vs(s: &str) -> Val {
    Val::S(s.into())
}
fn ann(id: &str, target: Target, data: Vec<DataT>) -> Op {
    Op::Annotate { id: Some(id.into()), target, data }
}
fn simple(t: TSimple) -> Target {
    Target::simple(t)
}
fn res1() -> Op {
    Op::AddRes { id: "r1".into(), text: TEXT1.into() }
}
fn res2() -> Op {
    Op::AddRes { id: "r2".into(), text: TEXT2.into() }
}

pub fn store_histories() -> Vec<(&'static str, Vec<Op>)> {
    let k1 = |v: &str| d("s1", "k1", vs(v));
    let k2 = |i: i64| d("s1", "k2", Val::I(i));
    vec![
        (
            "text-basic",
            vec![
                res1(),
                ann("a1", simple(tx("r1", 0, 2)), vec![k1("x")]),
                ann("a2", simple(tx("r1", 3, 5)), vec![k1("y")]),
                ann("a3", simple(tx("r1", 0, 5)), vec![k1("x"), k2(1)]),
                ann("a4", simple(tx("r1", 6, 8)), vec![k2(2)]),
            ],
        ),
        (
            // annotations with two values under one key, sharing data items with others (a key's annotations are then
            // reached several times, and not adjacently)
            "two-values-one-key",
            vec![
                res1(),
                ann("a1", simple(tx("r1", 0, 2)), vec![k1("x"), k1("y")]),
                ann("a2", simple(tx("r1", 3, 5)), vec![k1("x")]),
                ann("a3", simple(tx("r1", 0, 5)), vec![k1("y"), k2(1)]),
                ann("a4", simple(tx("r1", 6, 8)), vec![k1("z"), k1("x")]),
            ],
        ),
        (
            // complex selectors over annotations that do not have consecutive handles (so they are not folded into a range)
            "complex-over-annotations",
            vec![
                res1(),
                ann("a1", simple(tx("r1", 0, 2)), vec![k1("x")]),
                ann("a2", simple(tx("r1", 3, 5)), vec![k1("y")]),
                ann("a3", simple(tx("r1", 6, 8)), vec![k2(1)]),
                ann("a4", Target { kind: TKind::Composite, parts: vec![TSimple::Ann { ann: "a1".into(), off: Some(Off::whole()) }, TSimple::Ann { ann: "a3".into(), off: Some(Off::whole()) }] }, vec![k1("x")]),
                ann("a5", Target { kind: TKind::Directional, parts: vec![TSimple::Ann { ann: "a3".into(), off: Some(Off::simple(0, 1)) }, TSimple::Ann { ann: "a1".into(), off: Some(Off::simple(0, 1)) }] }, vec![k2(2)]),
            ],
        ),
        (
            "shared-data",
            vec![
                res1(),
                ann("a1", simple(tx("r1", 0, 2)), vec![k1("x")]),
                ann("a2", simple(tx("r1", 6, 8)), vec![k1("x")]),
                ann("a3", simple(tx("r1", 0, 2)), vec![k1("y")]),
                ann("a4", simple(tx("r1", 2, 3)), vec![k2(1)]),
                ann("a5", simple(tx("r1", 0, 1)), vec![k1("x"), k2(1)]),
            ],
        ),
        (
            "ann-on-ann",
            vec![
                res1(),
                ann("a1", simple(tx("r1", 0, 2)), vec![k1("x")]),
                ann("a2", simple(TSimple::Ann { ann: "a1".into(), off: None }), vec![k1("y")]),
                ann("a3", simple(TSimple::Ann { ann: "a2".into(), off: None }), vec![k2(1)]),
                ann("a4", simple(TSimple::Ann { ann: "a1".into(), off: Some(Off::whole()) }), vec![k1("x")]),
                ann("a5", simple(tx("r1", 3, 5)), vec![k2(2)]),
            ],
        ),
        (
            "metadata",
            vec![
                res1(),
                res2(),
                ann("a1", simple(TSimple::Res("r1".into())), vec![k1("x")]),
                ann("a2", simple(TSimple::Set("s1".into())), vec![k2(1)]),
                ann("a3", simple(tx("r1", 0, 2)), vec![k1("y")]),
                ann("a4", simple(TSimple::Res("r2".into())), vec![k1("x")]),
                ann("a5", simple(tx("r2", 0, 2)), vec![d("s2", "k1", vs("x"))]),
            ],
        ),
        (
            "multi-selection",
            vec![
                res1(),
                ann("a1", Target { kind: TKind::Multi, parts: vec![tx("r1", 0, 2), tx("r1", 6, 8)] }, vec![k1("x")]),
                ann("a2", simple(tx("r1", 0, 2)), vec![k1("y")]),
                ann("a3", Target { kind: TKind::Composite, parts: vec![tx("r1", 0, 1), tx("r1", 1, 2)] }, vec![k2(1)]),
                ann("a4", simple(tx("r1", 6, 8)), vec![k1("x")]),
            ],
        ),
        (
            "two-resources",
            vec![
                res1(),
                res2(),
                ann("a1", simple(tx("r1", 0, 1)), vec![k1("x")]),
                ann("a2", simple(tx("r2", 0, 2)), vec![k1("x")]),
                ann("a3", simple(tx("r2", 3, 5)), vec![k1("y")]),
                ann("a4", simple(tx("r1", 0, 2)), vec![k2(1)]),
                // the text "a" is annotated in both resources, and in the second one at a position before the last occurrence
                // in the first (a text search that runs over several resources must start each one from its beginning)
                ann("a5", simple(tx("r2", 3, 4)), vec![k1("y")]),
            ],
        ),
        (
            "two-datasets",
            vec![
                res1(),
                ann("a1", simple(tx("r1", 0, 2)), vec![k1("x")]),
                ann("a2", simple(tx("r1", 0, 2)), vec![d("s2", "k1", vs("x"))]),
                ann("a3", simple(tx("r1", 3, 5)), vec![k1("x"), d("s2", "k2", Val::I(1))]),
                ann("a4", simple(tx("r1", 3, 4)), vec![d("s2", "k1", vs("y"))]),
            ],
        ),
        (
            "complex",
            vec![
                res1(),
                res2(),
                ann("a1", simple(tx("r1", 0, 2)), vec![k1("x")]),
                ann("a2", simple(TSimple::Ann { ann: "a1".into(), off: None }), vec![d("s2", "k1", vs("y"))]),
                ann("a3", simple(TSimple::Res("r2".into())), vec![k2(1)]),
                ann("a4", Target { kind: TKind::Multi, parts: vec![tx("r1", 0, 1), tx("r2", 0, 2)] }, vec![k1("x")]),
                ann("a5", simple(TSimple::Set("s2".into())), vec![k1("y")]),
                ann("a6", simple(tx("r2", 0, 5)), vec![d("s2", "k2", Val::I(2))]),
            ],
        ),
        (
            "relations",
            vec![
                res1(),
                ann("a1", simple(tx("r1", 0, 1)), vec![k1("x")]),
                ann("a2", simple(tx("r1", 1, 2)), vec![k1("y")]),
                ann("a3", simple(tx("r1", 0, 2)), vec![k1("x")]),
                ann("a4", simple(tx("r1", 2, 3)), vec![k2(1)]),
                ann("a5", simple(tx("r1", 3, 5)), vec![k1("y")]),
                ann("a6", simple(tx("r1", 0, 8)), vec![k2(2)]),
            ],
        ),
        (
            "int-values",
            vec![
                res1(),
                ann("a1", simple(tx("r1", 0, 1)), vec![d("s1", "k1", Val::I(1))]),
                ann("a2", simple(tx("r1", 1, 2)), vec![d("s1", "k1", Val::I(2))]),
                ann("a3", simple(tx("r1", 3, 4)), vec![k1("1")]),
                ann("a4", simple(tx("r1", 4, 5)), vec![d("s1", "k1", Val::I(0))]),
            ],
        ),
        ("no-annotations", vec![res1(), Op::AddSet { id: "s1".into() }]),
        (
            "nested-complex-targets",
            vec![
                res1(),
                ann("a1", simple(tx("r1", 0, 2)), vec![k1("x")]),
                ann("a2", simple(tx("r1", 3, 5)), vec![k1("y")]),
                ann(
                    "a3",
                    Target { kind: TKind::Composite, parts: vec![TSimple::Ann { ann: "a1".into(), off: None }, TSimple::Ann { ann: "a2".into(), off: None }] },
                    vec![k2(1)],
                ),
                ann("a4", simple(TSimple::Ann { ann: "a3".into(), off: None }), vec![k1("x")]),
            ],
        ),
        (
            "same-selection",
            vec![
                res1(),
                ann("a1", simple(tx("r1", 0, 2)), vec![k1("x")]),
                ann("a2", simple(tx("r1", 0, 2)), vec![k1("y")]),
                ann("a3", simple(tx("r1", 0, 2)), vec![k2(1)]),
                ann("a4", simple(tx("r1", 6, 8)), vec![k1("x"), k2(1)]),
            ],
        ),
        (
            "interleaved-handles",
            vec![
                res1(),
                ann("a1", simple(tx("r1", 0, 1)), vec![k2(1)]),
                ann("a2", simple(tx("r1", 1, 2)), vec![k1("x")]),
                ann("a3", simple(tx("r1", 2, 3)), vec![k1("y")]),
                ann("a4", simple(tx("r1", 3, 4)), vec![k1("y")]),
                ann("a5", simple(tx("r1", 4, 5)), vec![k1("y")]),
                ann("a6", simple(tx("r1", 6, 8)), vec![k1("x"), k2(1)]),
            ],
        ),
    ]
}

pub struct SCtx {
    pub idx: usize,
    pub name: String,
    pub hist: Vec<Op>,
    pub store: AnnotationStore,
    pub model: Model,
    pub fwd: Vec<FAnn>,
}

fn build_sctx(idx: usize, name: &str, hist: &[Op]) -> Result<SCtx, String> {
    let (store, outs) = replay_real(hist);
    let mut model = Model::default();
    for (i, op) in hist.iter().enumerate() {
        if !outs[i].is_ok() {
            return Err(format!("store {}: operation {} ({}) failed on the real store: {}", name, i, op.short(), outs[i].class()));
        }
        model.apply(op).map_err(|e| format!("store {}: model rejects operation {} ({}): {:?}", name, i, op.short(), e))?;
    }
    let fwd = model.forward();
    Ok(SCtx { idx, name: name.to_string(), hist: hist.to_vec(), store, model, fwd })
}

fn all_sctx() -> Vec<SCtx> {
    store_histories()
        .iter()
        .enumerate()
        .map(|(i, (n, h))| build_sctx(i, n, h).unwrap_or_else(|e| panic!("C08 harness: {}", e)))
        .collect()
}

// =====================================================================================================
// evaluation
// =====================================================================================================

const ROWCAP: usize = 10_000;

static EVALS: AtomicU64 = AtomicU64::new(0);

fn render_val(v: &DataValue) -> String {
    match v {
        DataValue::String(s) => format!("s:{}", s),
        DataValue::Int(i) => format!("i:{}", i),
        o => format!("{:?}", o),
    }
}
fn render_mval(v: &Val) -> String {
    match v {
        Val::S(s) => format!("s:{}", s),
        Val::I(i) => format!("i:{}", i),
    }
}
fn render_ann(a: &ResultItem<Annotation>) -> String {
    match a.id() {
        Some(id) => format!("A:{}", id),
        None => format!("A:#{}", a.handle().as_usize()),
    }
}
fn render_data(x: &ResultItem<AnnotationData>) -> String {
    format!("D:{}/{}={}", x.set().id().unwrap_or("?"), x.key().as_str(), render_val(x.value()))
}
fn render_key(k: &ResultItem<DataKey>) -> String {
    format!("K:{}/{}", k.set().id().unwrap_or("?"), k.as_str())
}
fn render_tsel(t: &ResultTextSelection) -> String {
    format!("T:{}[{}:{}]", t.resource().id().unwrap_or("?"), t.begin(), t.end())
}
fn render_item(item: &QueryResultItem) -> String {
    match item {
        QueryResultItem::None => "-".into(),
        QueryResultItem::TextSelection(t) => render_tsel(t),
        QueryResultItem::Annotation(a) => render_ann(a),
        QueryResultItem::TextResource(r) => format!("R:{}", r.id().unwrap_or("?")),
        QueryResultItem::DataKey(k) => render_key(k),
        QueryResultItem::AnnotationData(x) => render_data(x),
        QueryResultItem::AnnotationDataSet(s) => format!("S:{}", s.id().unwrap_or("?")),
        QueryResultItem::AnnotationSubStore(_) => "SUBSTORE".into(),
    }
}

type Row = Vec<String>;

/// outcome of one query evaluation
#[derive(Clone, Debug, PartialEq)]
pub struct Out {
    pub rows: Vec<Row>,
    /// `panic:<class>` | `err:<class>` | `nonterminating(>N rows)`
    pub fail: Option<String>,
}

impl Out {
    fn set(&self) -> BTreeSet<Row> {
        self.rows.iter().cloned().collect()
    }
    fn is_panic(&self) -> bool {
        self.fail.as_deref().map(|f| f.starts_with("panic:") || f.starts_with("nonterminating")).unwrap_or(false)
    }
    fn show(&self) -> String {
        let rows: Vec<String> = self.rows.iter().take(12).map(|r| r.join(",")).collect();
        let more = if self.rows.len() > 12 { format!(" ..({} rows)", self.rows.len()) } else { String::new() };
        match &self.fail {
            Some(f) => format!("{} [{}{}]", f, rows.join(" "), more),
            None => format!("[{}{}]", rows.join(" "), more),
        }
    }
}

fn err_class(e: &StamError) -> String {
    let s = format!("{:?}", e);
    s.chars().take_while(|c| c.is_alphanumeric()).collect()
}

fn panic_class(m: &str) -> String {
    let c = msg_class(m);
    c.chars().take(70).collect::<String>().trim().to_string()
}

/// evaluate a library query, keeping the library's result rows (needed to bind variables)
fn eval_items<'s>(store: &'s AnnotationStore, q: Query<'s>) -> (Vec<QueryResultItems<'s>>, Option<String>) {
    EVALS.fetch_add(1, Ordering::Relaxed);
    let r = catch(|| match store.query(q) {
        Ok(it) => {
            let mut rows = Vec::new();
            for row in it {
                rows.push(row);
                if rows.len() > ROWCAP {
                    return (rows, Some(format!("nonterminating(>{} rows)", ROWCAP)));
                }
            }
            (rows, None)
        }
        Err(e) => (Vec::new(), Some(format!("err:{}", err_class(&e)))),
    });
    match r {
        Ok(x) => x,
        Err(p) => (Vec::new(), Some(format!("panic:{}", panic_class(&p)))),
    }
}

fn rows_of(items: &[QueryResultItems]) -> Vec<Row> {
    items.iter().map(|r| r.iter().map(render_item).collect()).collect()
}

fn eval_query<'s>(store: &'s AnnotationStore, q: Query<'s>) -> Out {
    let (items, fail) = eval_items(store, q);
    let mut rows = rows_of(&items);
    rows.truncate(50); // only reached for non-terminating iterators
    if fail.is_none() {
        rows = rows_of(&items);
    }
    Out { rows, fail }
}

/// programmatic spelling
fn eval_qs<'s>(store: &'s AnnotationStore, q: &'s Qs) -> Out {
    match build_q(q, true) {
        Ok(query) => eval_query(store, query),
        Err(e) => Out { rows: vec![], fail: Some(format!("harness:{}", e)) },
    }
}

/// STAMQL spelling: Err(parse error class) when the text does not parse
fn eval_text<'s>(store: &'s AnnotationStore, text: &'s str) -> Result<Out, String> {
    let parsed = catch(|| -> Result<Query<'s>, StamError> { text.try_into() });
    match parsed {
        Err(p) => Err(format!("panic:{}", panic_class(&p))),
        Ok(Err(e)) => Err(format!("err:{}", panic_class(&e.to_string().replace("[StamError] ", "").replace("QuerySyntaxError: Malformed query: ", "").split('\'').next().unwrap_or("")))),
        Ok(Ok(q)) => Ok(eval_query(store, q)),
    }
}

fn pyslice(n: usize, b: isize, e: isize) -> (usize, usize) {
    let n_i = n as isize;
    let start = if b < 0 { (n_i + b).max(0) } else { b.min(n_i) };
    let stop = if e == 0 {
        n_i
    } else if e < 0 {
        (n_i + e).max(0)
    } else {
        e.min(n_i)
    };
    (start as usize, stop.max(start) as usize)
}

fn sign(x: isize) -> &'static str {
    if x < 0 {
        "neg"
    } else if x == 0 {
        "zero"
    } else {
        "pos"
    }
}

fn set_relation(a: &BTreeSet<Row>, b: &BTreeSet<Row>, an: &str, bn: &str) -> String {
    if a.is_subset(b) {
        format!("{}<{}", an, bn)
    } else if b.is_subset(a) {
        format!("{}<{}", bn, an)
    } else {
        "incomparable".to_string()
    }
}

/// deterministic tie-break between cases of equal simplicity (the reporter keeps the first case of the smallest ord)
fn tie(ord: u64, key: &impl std::fmt::Debug) -> u64 {
    ord * 1_000_000 + crate::util::fnv64(format!("{:?}", key).as_bytes()) % 1_000_000
}

fn hist_json(sc: &SCtx) -> Value {
    serde_json::to_value(&sc.hist).unwrap_or(Value::Null)
}

fn case_json(oracle: &str, sc: &SCtx, q: &Qs, extra: Value) -> Value {
    json!({"oracle": oracle, "store": sc.name, "history": hist_json(sc), "query": q, "stamql": text_q(q), "extra": extra})
}

// =====================================================================================================
// constraint alphabets (derived from the store's model: a small, fixed menu per store and result type)
// =====================================================================================================

struct Vocab {
    anns: Vec<String>,
    res: Vec<String>,
    sets: Vec<String>,
    keys: Vec<(String, String)>,
    /// first string / int value per (set,key)
    sval: BTreeMap<(String, String), String>,
    ival: BTreeMap<(String, String), i64>,
    needles: Vec<String>,
}

fn char_slice(text: &str, b: usize, e: usize) -> String {
    text.chars().skip(b).take(e.saturating_sub(b)).collect()
}

fn vocab(sc: &SCtx) -> Vocab {
    let m = &sc.model;
    let anns: Vec<String> = sc.fwd.iter().map(|a| a.name.clone()).collect();
    let res: Vec<String> = m.res.iter().flatten().map(|r| r.id.clone()).collect();
    let sets: Vec<String> = m.sets.iter().flatten().map(|s| s.id.clone()).collect();
    let mut keys = Vec::new();
    let mut sval = BTreeMap::new();
    let mut ival = BTreeMap::new();
    for s in m.sets.iter().flatten() {
        for k in s.keys.iter().flatten() {
            keys.push((s.id.clone(), k.clone()));
        }
        for x in s.data.iter().flatten() {
            let k = s.keys[x.key].clone().unwrap_or_default();
            match &x.val {
                Val::S(v) => {
                    sval.entry((s.id.clone(), k)).or_insert(v.clone());
                }
                Val::I(i) => {
                    ival.entry((s.id.clone(), k)).or_insert(*i);
                }
            }
        }
    }
    // needles: texts of annotated selections (first use order), never empty
    let mut needles: Vec<String> = Vec::new();
    for r in m.res.iter().flatten() {
        for (b, e) in &r.sels {
            let t = char_slice(&r.text, *b, *e);
            if !t.is_empty() && !needles.contains(&t) {
                needles.push(t);
            }
        }
    }
    needles.truncate(3);
    Vocab { anns, res, sets, keys, sval, ival, needles }
}

/// the non-LIMIT, non-UNION constraint menu for one store and result type
fn alphabet(sc: &SCtx, rt: Rt) -> Vec<Cs> {
    let v = vocab(sc);
    let mut out: Vec<Cs> = Vec::new();
    // ID
    let ids: Vec<String> = match rt {
        Rt::Annotation => v.anns.iter().take(3).cloned().collect(),
        Rt::Resource => v.res.clone(),
        Rt::DataSet => v.sets.clone(),
        _ => v.anns.iter().take(1).cloned().collect(),
    };
    for id in ids {
        out.push(Cs::Id(id));
    }
    out.push(Cs::Id("zz".into()));
    // DATA set key
    for (i, (s, k)) in v.keys.iter().enumerate() {
        out.push(Cs::Key { set: s.clone(), key: k.clone(), meta: false });
        if i == 0 {
            out.push(Cs::Key { set: s.clone(), key: k.clone(), meta: true });
        }
    }
    if let Some(s) = v.sets.first() {
        out.push(Cs::Key { set: s.clone(), key: "zz".into(), meta: false });
    }
    // DATA set key op value
    for (i, (s, k)) in v.keys.iter().take(3).enumerate() {
        let sv = v.sval.get(&(s.clone(), k.clone())).cloned().unwrap_or_else(|| "x".into());
        let iv = v.ival.get(&(s.clone(), k.clone())).copied().unwrap_or(1);
        let mut ops = vec![Vs::Any, Vs::EqS(sv.clone()), Vs::NeS(sv.clone()), Vs::EqI(iv), Vs::GtI(0), Vs::ListS(vec![sv.clone(), "zz".into()])];
        if i == 0 {
            ops.push(Vs::Null);
            ops.push(Vs::True);
        }
        for op in ops {
            out.push(Cs::KeyVal { set: s.clone(), key: k.clone(), op, meta: false });
        }
        if i == 0 {
            out.push(Cs::KeyVal { set: s.clone(), key: k.clone(), op: Vs::EqS(sv), meta: true });
        }
    }
    // VALUE
    let sv0 = v.sval.values().next().cloned().unwrap_or_else(|| "x".into());
    let iv0 = v.ival.values().next().copied().unwrap_or(1);
    for op in [Vs::EqS(sv0), Vs::EqI(iv0), Vs::GtI(0), Vs::Any] {
        out.push(Cs::Val(op));
    }
    // TEXT
    for n in &v.needles {
        out.push(Cs::Text { t: n.clone(), nocase: false });
    }
    out.push(Cs::Text { t: "q".into(), nocase: false });
    if let Some(n) = v.needles.first() {
        out.push(Cs::Text { t: n.to_lowercase(), nocase: true });
        if n.to_uppercase() != n.to_lowercase() {
            out.push(Cs::Text { t: n.to_uppercase(), nocase: true });
        }
    }
    out.push(Cs::Regex("^a".into()));
    out.push(Cs::Regex("\u{e9}".into()));
    // RESOURCE
    for (i, r) in v.res.iter().enumerate() {
        out.push(Cs::Res { id: r.clone(), meta: false, off: None });
        out.push(Cs::Res { id: r.clone(), meta: true, off: None });
        if i == 0 {
            out.push(Cs::Res { id: r.clone(), meta: false, off: Some((0, 1)) });
            out.push(Cs::Res { id: r.clone(), meta: false, off: Some((0, 2)) });
        }
    }
    out.push(Cs::Res { id: "zz".into(), meta: false, off: None });
    // DATASET
    for s in &v.sets {
        out.push(Cs::Set { id: s.clone(), meta: false });
        out.push(Cs::Set { id: s.clone(), meta: true });
    }
    // ANNOTATION
    for a in v.anns.iter().take(4) {
        for (meta, rec) in [(false, false), (true, false), (false, true), (true, true)] {
            out.push(Cs::Ann { id: a.clone(), meta, rec });
        }
    }
    out
}

// =====================================================================================================
// singles: every constraint alone, as primary and as secondary constraint
// =====================================================================================================

fn q_primary(rt: Rt, c: &Cs) -> Qs {
    Qs::flat(rt, vec![c.clone()])
}
/// `LIMIT 0 0` (documented: begin 0, end 0 = until the end) is the neutral first constraint that puts `c` in
/// secondary position over the unconstrained universe of the result type
fn q_secondary(rt: Rt, c: &Cs) -> Qs {
    Qs::flat(rt, vec![Cs::Limit(0, 0), c.clone()])
}

pub struct Single {
    pub c: Cs,
    pub coarse: String,
    pub fine: String,
    pub missing: bool,
    pub p: Out,
    pub s: Out,
}

pub struct Cell {
    pub rt: Rt,
    pub universe: Out,
    pub singles: Vec<Single>,
}

/// (result type, coarse kind) -> (yields rows as primary somewhere, yields rows as secondary somewhere)
type Support = BTreeMap<(Rt, String), (bool, bool)>;

fn compute_cell(sc: &SCtx, rt: Rt) -> Cell {
    let uq = Qs::flat(rt, vec![]);
    let universe = eval_qs(&sc.store, &uq);
    let singles = alphabet(sc, rt)
        .into_iter()
        .map(|c| {
            let qp = q_primary(rt, &c);
            let qs = q_secondary(rt, &c);
            let p = eval_qs(&sc.store, &qp);
            let s = eval_qs(&sc.store, &qs);
            Single { coarse: coarse(&c), fine: fine(&c, &sc.model, rt), missing: missing_ref(&c, &sc.model, rt), c, p, s }
        })
        .collect();
    Cell { rt, universe, singles }
}

fn compute_support(cells: &[Vec<Cell>]) -> Support {
    let mut sup: Support = BTreeMap::new();
    for per_store in cells {
        for cell in per_store {
            for s in &cell.singles {
                let e = sup.entry((cell.rt, s.coarse.clone())).or_insert((false, false));
                if !s.p.rows.is_empty() {
                    e.0 = true;
                }
                if !s.s.rows.is_empty() {
                    e.1 = true;
                }
            }
        }
    }
    sup
}

fn sup_of(sup: &Support, rt: Rt, c: &Cs) -> (bool, bool) {
    sup.get(&(rt, coarse(c))).copied().unwrap_or((false, false))
}

/// a constraint instance whose two implementations agree on this store (and whose kind works in both positions)
fn is_clean(sup: &Support, rt: Rt, s: &Single) -> bool {
    let (sp, ss) = sup_of(sup, rt, &s.c);
    sp && ss && s.p.fail.is_none() && s.s.fail.is_none() && s.p.set() == s.s.set()
}

#[derive(Default)]
struct Counts {
    cases: AtomicU64,
    nontrivial: AtomicU64,
    skipped_unsupported: AtomicU64,
    skipped_attributed: AtomicU64,
    as_qualifier_unparseable: AtomicU64,
    text_compared: AtomicU64,
    iter_compared: AtomicU64,
}

impl Counts {
    fn case(&self, nontrivial: bool) {
        self.cases.fetch_add(1, Ordering::Relaxed);
        if nontrivial {
            self.nontrivial.fetch_add(1, Ordering::Relaxed);
        }
    }
}

// ---- o1: order independence -----------------------------------------------------------------------------

fn check_o1_single(rep: &Reporter, sc: &SCtx, rt: Rt, s: &Single, sup: &Support, cn: &Counts, ord: u64) {
    cn.case(!s.p.rows.is_empty() || !s.s.rows.is_empty());
    let qp = q_primary(rt, &s.c);
    for (pos, o) in [("primary", &s.p), ("secondary", &s.s)] {
        if o.is_panic() {
            let f = o.fail.clone().unwrap_or_default();
            rep.fail(
                &format!("o1|{}|{}|{}|{}", rt.kw(), s.coarse, pos, f),
                tie(ord, &(&sc.name, rt.kw(), &s.c)),
                || format!("store {}: SELECT {} with constraint {:?} as {} constraint: {}", sc.name, rt.kw(), s.c, pos, f),
                || case_json("o1-single", sc, &qp, json!({"position": pos})),
            );
        }
    }
    if s.p.is_panic() || s.s.is_panic() {
        return;
    }
    let (sp, ss) = sup_of(sup, rt, &s.c);
    if !sp && !ss {
        cn.skipped_unsupported.fetch_add(1, Ordering::Relaxed);
        return;
    }
    let (ps, ssx) = (s.p.set(), s.s.set());
    if ps == ssx {
        return;
    }
    let qs = q_secondary(rt, &s.c);
    let detail = || {
        format!(
            "store {}: [{}] gives {} but [{}] gives {}",
            sc.name,
            text_q(&qp).unwrap_or_else(|| format!("{:?}", qp)),
            s.p.show(),
            text_q(&qs).unwrap_or_else(|| format!("{:?}", qs)),
            s.s.show()
        )
    };
    if sp != ss {
        // the kind never yields anything in one of the two positions, on any store: implemented on one side only
        let pos = if sp { "secondary" } else { "primary" };
        rep.fail(&format!("o1|{}|{}|{}|never-yields(silently-empty)", rt.kw(), s.coarse, pos), tie(ord, &(&sc.name, rt.kw(), &s.c)), detail, || case_json("o1-single", sc, &qp, json!({})));
    } else {
        let rel = set_relation(&ps, &ssx, "primary", "secondary");
        rep.fail(&format!("o1|{}|{}|primary-vs-secondary|{}", rt.kw(), s.fine, rel), tie(ord, &(&sc.name, rt.kw(), &s.c)), detail, || case_json("o1-single", sc, &qp, json!({})));
    }
}

fn intersect(a: &BTreeSet<Row>, b: &BTreeSet<Row>) -> BTreeSet<Row> {
    a.intersection(b).cloned().collect()
}

/// all orderings of a set of clean constraints give the same set, namely the intersection of the single results
fn check_o1_combo(rep: &Reporter, sc: &SCtx, rt: Rt, combo: &[&Single], cn: &Counts, ord: u64, failed_pairs: Option<&Mutex<BTreeSet<(String, String)>>>) {
    let n = combo.len();
    let mut want: BTreeSet<Row> = combo[0].p.set();
    for s in &combo[1..] {
        want = intersect(&want, &s.p.set());
    }
    cn.case(!want.is_empty());
    let mut perms: Vec<Vec<usize>> = Vec::new();
    if n == 2 {
        perms = vec![vec![0, 1], vec![1, 0]];
    } else {
        for a in 0..3 {
            for b in 0..3 {
                for c in 0..3 {
                    if a != b && b != c && a != c {
                        perms.push(vec![a, b, c]);
                    }
                }
            }
        }
    }
    let mut kinds: Vec<String> = combo.iter().map(|s| s.coarse.clone()).collect();
    kinds.sort();
    let label = if n == 2 { "pair" } else { "triple" };
    let mut results: Vec<(Qs, Out)> = Vec::new();
    for p in &perms {
        let q = Qs::flat(rt, p.iter().map(|i| combo[*i].c.clone()).collect());
        let o = eval_qs(&sc.store, &q);
        results.push((q, o));
    }
    let mut bad = false;
    for (q, o) in &results {
        if o.is_panic() {
            bad = true;
            let f = o.fail.clone().unwrap_or_default();
            rep.fail(
                &format!("o1|{}|{}:{}|{}", rt.kw(), label, kinds.join("+"), f),
                tie(ord, &(&sc.name, rt.kw(), combo.iter().map(|s| &s.c).collect::<Vec<_>>())),
                || format!("store {}: {:?}: {}", sc.name, text_q(q), f),
                || case_json("o1-combo", sc, q, json!({})),
            );
        }
    }
    if bad {
        return;
    }
    let first = results[0].1.set();
    if let Some((q, o)) = results.iter().find(|(_, o)| o.set() != first) {
        bad = true;
        rep.fail(
            &format!("o1|{}|{}:{}|order-dependent", rt.kw(), label, kinds.join("+")),
            tie(ord, &(&sc.name, rt.kw(), combo.iter().map(|s| &s.c).collect::<Vec<_>>())),
            || format!("store {}: [{}] gives {} but [{}] gives {}", sc.name, text_q(&results[0].0).unwrap_or_default(), results[0].1.show(), text_q(q).unwrap_or_default(), o.show()),
            || case_json("o1-combo", sc, &results[0].0, json!({"other": q})),
        );
    } else if first != want {
        bad = true;
        let q = &results[0].0;
        let rel = set_relation(&first, &want, "conjunction", "intersection");
        rep.fail(
            &format!("o1|{}|{}:{}|conjunction-not-intersection|{}", rt.kw(), label, kinds.join("+"), rel),
            tie(ord, &(&sc.name, rt.kw(), combo.iter().map(|s| &s.c).collect::<Vec<_>>())),
            || format!("store {}: [{}] gives {} but the single-constraint results intersect to {:?}", sc.name, text_q(q).unwrap_or_default(), results[0].1.show(), want),
            || case_json("o1-combo", sc, q, json!({})),
        );
    }
    if bad && n == 2 {
        if let Some(fp) = failed_pairs {
            fp.lock().unwrap().insert((combo[0].fine.clone(), combo[1].fine.clone()));
        }
    }
}

// ---- o2: UNION ------------------------------------------------------------------------------------------

/// first instance of every fine kind (reduced menu for unions and triples)
fn reduced<'a>(cell: &'a Cell) -> Vec<&'a Single> {
    let mut seen = BTreeSet::new();
    cell.singles.iter().filter(|s| seen.insert(s.fine.clone())).collect()
}

type USupport = BTreeMap<(Rt, &'static str), bool>;

/// evaluate the union of two branches as primary and as secondary constraint
fn eval_o2(sc: &SCtx, rt: Rt, a: &Single, b: &Single) -> Vec<(&'static str, Qs, Out)> {
    let u = Cs::Union(vec![a.c.clone(), b.c.clone()]);
    [("primary", q_primary(rt, &u)), ("secondary", q_secondary(rt, &u))]
        .into_iter()
        .map(|(pos, q)| {
            let o = eval_qs(&sc.store, &q);
            (pos, q, o)
        })
        .collect()
}

fn o2_applicable(rt: Rt, a: &Single, b: &Single, sup: &Support) -> bool {
    let (ap, _) = sup_of(sup, rt, &a.c);
    let (bp, _) = sup_of(sup, rt, &b.c);
    // a union with a branch of a kind that never works as primary constraint for this result type is an
    // invalid query (error, printed to stderr); a panicking branch is reported on the branch itself (o1)
    ap && bp && !a.p.is_panic() && !b.p.is_panic()
}

fn report_o2(rep: &Reporter, sc: &SCtx, rt: Rt, a: &Single, b: &Single, results: &[(&'static str, Qs, Out)], sup: &Support, usup: &USupport, cn: &Counts, ord: u64) {
    if !o2_applicable(rt, a, b, sup) {
        cn.skipped_unsupported.fetch_add(1, Ordering::Relaxed);
        return;
    }
    let mut want: BTreeSet<Row> = a.p.set();
    want.extend(b.p.set());
    cn.case(!a.p.rows.is_empty() && !b.p.rows.is_empty() && a.p.set() != b.p.set());
    let branch = |s: &Single| if s.missing { s.fine.clone() } else { s.coarse.clone() };
    let mut kinds = vec![branch(a), branch(b)];
    kinds.sort();
    let any_pos_supported = usup.iter().any(|(k, v)| *v && k.0 == rt && !k.1.ends_with("panics"));
    for (pos, q, o) in results {
        if o.is_panic() {
            let f = o.fail.clone().unwrap_or_default();
            rep.fail(
                &format!("o2|{}|UNION|{}|{}", rt.kw(), pos, f),
                tie(ord, &(&sc.name, q)),
                || format!("store {}: [{}]: {}", sc.name, text_q(q).unwrap_or_default(), f),
                || case_json("o2", sc, q, json!({"position": pos})),
            );
            continue;
        }
        if !any_pos_supported {
            cn.skipped_unsupported.fetch_add(1, Ordering::Relaxed);
            continue;
        }
        let got = o.set();
        let detail = || format!("store {}: [{}] gives {} but the branches alone give {} and {}", sc.name, text_q(q).unwrap_or_default(), o.show(), a.p.show(), b.p.show());
        if !usup.get(&(rt, *pos)).copied().unwrap_or(false) {
            // unions work in the other position only
            if got != want && !usup.get(&(rt, if *pos == "primary" { "primary-panics" } else { "secondary-panics" })).copied().unwrap_or(false) {
                rep.fail(&format!("o2|{}|UNION|{}|never-yields(silently-empty)", rt.kw(), pos), tie(ord, &(&sc.name, q)), detail, || case_json("o2", sc, q, json!({"position": pos})));
            }
            continue;
        }
        if got.len() != o.rows.len() {
            rep.fail(&format!("o2|{}|UNION|{}|duplicate-rows", rt.kw(), pos), tie(ord, &(&sc.name, q)), detail, || case_json("o2", sc, q, json!({"position": pos})));
        }
        if got != want {
            if (a.missing || b.missing) && got.is_empty() {
                rep.fail(&format!("o2|{}|UNION|{}|branch-naming-unknown-item-empties-the-union", rt.kw(), pos), tie(ord, &(&sc.name, q)), detail, || case_json("o2", sc, q, json!({"position": pos})));
            } else {
                let rel = set_relation(&got, &want, "union", "branches");
                rep.fail(&format!("o2|{}|UNION[{}]|{}|not-union-of-branches|{}", rt.kw(), kinds.join("+"), pos, rel), tie(ord, &(&sc.name, q)), detail, || case_json("o2", sc, q, json!({"position": pos})));
            }
        }
    }
}

struct URec {
    si: usize,
    ri: usize,
    i: usize,
    j: usize,
    results: Vec<(&'static str, Qs, Out)>,
}

/// all unions of two reduced-menu branches on all stores, and in which positions unions yield rows at all
fn menu<'a>(cell: &'a Cell, full: bool) -> Vec<&'a Single> {
    if full {
        cell.singles.iter().collect()
    } else {
        reduced(cell)
    }
}

fn compute_unions(scs: &[SCtx], cells: &[Vec<Cell>], sup: &Support, nstores: usize, full: bool) -> (Vec<URec>, USupport) {
    let tasks: Vec<(usize, usize)> = (0..nstores.min(scs.len())).flat_map(|s| (0..RTS.len()).map(move |r| (s, r))).collect();
    let recs: Vec<URec> = tasks
        .par_iter()
        .flat_map(|(si, ri)| {
            let (sc, cell) = (&scs[*si], &cells[*si][*ri]);
            let red = menu(cell, full);
            let mut v = Vec::new();
            for i in 0..red.len() {
                for j in 0..red.len() {
                    if i != j && o2_applicable(cell.rt, red[i], red[j], sup) {
                        v.push(URec { si: *si, ri: *ri, i, j, results: eval_o2(sc, cell.rt, red[i], red[j]) });
                    }
                }
            }
            v
        })
        .collect();
    let mut usup: USupport = BTreeMap::new();
    for r in &recs {
        for (pos, _, o) in &r.results {
            let e = usup.entry((RTS[r.ri], *pos)).or_insert(false);
            if !o.rows.is_empty() && o.fail.is_none() {
                *e = true;
            }
            if o.is_panic() {
                usup.insert((RTS[r.ri], if *pos == "primary" { "primary-panics" } else { "secondary-panics" }), true);
            }
        }
    }
    (recs, usup)
}

// ---- o3: LIMIT ------------------------------------------------------------------------------------------

/// what the stand-alone LimitIter returns for n items (indices), used to attribute query-level deviations
fn limititer_indices(n: usize, b: isize, e: isize) -> Result<Vec<usize>, String> {
    catch(|| (0..n).limit(b, e).take(64).collect::<Vec<usize>>()).map_err(|p| panic_class(&p))
}

fn check_o3(rep: &Reporter, sc: &SCtx, rt: Rt, base: &[Cs], base_out: &Out, b: isize, e: isize, cn: &Counts, ord: u64) {
    let n = base_out.rows.len();
    let (lo, hi) = pyslice(n, b, e);
    let want: Vec<Row> = base_out.rows[lo..hi].to_vec();
    cn.case(n > 1 && (b != 0 || e != 0));
    let mut cons = base.to_vec();
    cons.push(Cs::Limit(b, e));
    let q = Qs::flat(rt, cons);
    let o = eval_qs(&sc.store, &q);
    let pos = if base.is_empty() { "primary" } else { "secondary" };
    if o.is_panic() {
        let f = o.fail.clone().unwrap_or_default();
        rep.fail(
            &format!("o3|{}|LIMIT|{}|begin:{},end:{}|{}", rt.kw(), pos, sign(b), sign(e), f),
            tie(ord, &(&sc.name, &q)),
            || format!("store {}: [{}]: {}", sc.name, text_q(&q).unwrap_or_default(), f),
            || case_json("o3", sc, &q, json!({})),
        );
        return;
    }
    if o.rows != want {
        // attributed to the LimitIter finding if the stand-alone iterator deviates in exactly the same way
        if let Ok(idx) = limititer_indices(n, b, e) {
            let same: Vec<Row> = idx.iter().filter_map(|i| base_out.rows.get(*i).cloned()).collect();
            if same == o.rows && idx != (lo..hi).collect::<Vec<usize>>() {
                cn.skipped_attributed.fetch_add(1, Ordering::Relaxed);
                return;
            }
        }
        rep.fail(
            &format!("o3|{}|LIMIT|{}|begin:{},end:{}|not-the-slice", rt.kw(), pos, sign(b), sign(e)),
            tie(ord, &(&sc.name, &q)),
            || format!("store {}: [{}] gives {} but the unlimited query gives {} and [{}:{}] of that is {:?}", sc.name, text_q(&q).unwrap_or_default(), o.show(), base_out.show(), b, if e == 0 { "".to_string() } else { e.to_string() }, want),
            || case_json("o3", sc, &q, json!({})),
        );
    }
}

// ---- o6: reference meaning from the model ------------------------------------------------------------------

/// lower ⊆ result ⊆ upper; where the documentation pins the meaning down completely lower == upper
pub struct RefSet {
    pub lower: BTreeSet<String>,
    pub upper: BTreeSet<String>,
    /// the meaning is only defined for the constraint on its own (primary position)
    pub primary_only: bool,
}

fn vtest(op: &Vs, v: &Val) -> Option<bool> {
    let numeric = |s: &str| s.parse::<f64>().is_ok();
    match (op, v) {
        (Vs::Any, _) => Some(true),
        (Vs::Null, _) | (Vs::True, _) => Some(false), // the stores hold strings and integers only
        (Vs::EqS(x), Val::S(s)) => Some(s == x),
        (Vs::EqS(x), Val::I(_)) => {
            if numeric(x) {
                None
            } else {
                Some(false)
            }
        }
        (Vs::NeS(x), v) => vtest(&Vs::EqS(x.clone()), v).map(|b| !b),
        (Vs::EqI(i), Val::I(j)) => Some(i == j),
        (Vs::GtI(i), Val::I(j)) => Some(j > i),
        (Vs::EqI(_), Val::S(s)) | (Vs::GtI(_), Val::S(s)) => {
            if numeric(s) {
                None
            } else {
                Some(false)
            }
        }
        (Vs::ListS(l), v) => {
            let r: Vec<Option<bool>> = l.iter().map(|x| vtest(&Vs::EqS(x.clone()), v)).collect();
            if r.iter().any(|x| *x == Some(true)) {
                Some(true)
            } else if r.iter().any(|x| x.is_none()) {
                None
            } else {
                Some(false)
            }
        }
    }
}

fn any3(it: impl Iterator<Item = Option<bool>>) -> Option<bool> {
    let mut unknown = false;
    for x in it {
        match x {
            Some(true) => return Some(true),
            None => unknown = true,
            Some(false) => {}
        }
    }
    if unknown {
        None
    } else {
        Some(false)
    }
}

struct Facts<'a> {
    sc: &'a SCtx,
}

impl<'a> Facts<'a> {
    fn ann(&self, name: &str) -> Option<&'a FAnn> {
        self.sc.fwd.iter().find(|a| a.name == name)
    }
    fn targets(&self, a: &FAnn) -> Vec<String> {
        a.parts
            .iter()
            .filter_map(|p| match p {
                FRef::Ann { ann, .. } => Some(ann.clone()),
                _ => None,
            })
            .collect()
    }
    /// annotations reachable from `name` through annotation selectors (excluding itself unless cyclic)
    fn reach(&self, name: &str) -> BTreeSet<String> {
        let mut seen = BTreeSet::new();
        let mut todo = vec![name.to_string()];
        while let Some(n) = todo.pop() {
            if let Some(a) = self.ann(&n) {
                for t in self.targets(a) {
                    if seen.insert(t.clone()) {
                        todo.push(t);
                    }
                }
            }
        }
        seen
    }
    fn direct_texts(&self, a: &FAnn) -> Vec<(String, usize, usize)> {
        a.parts
            .iter()
            .filter_map(|p| match p {
                FRef::Text { res, b, e, .. } => Some((res.clone(), *b, *e)),
                _ => None,
            })
            .collect()
    }
    fn offset_texts(&self, a: &FAnn) -> Vec<(String, usize, usize)> {
        a.parts
            .iter()
            .filter_map(|p| match p {
                FRef::Ann { text: Some((res, b, e, _)), .. } => Some((res.clone(), *b, *e)),
                _ => None,
            })
            .collect()
    }
    /// every text the annotation could be said to select, directly or through the annotations it targets
    fn possible_texts(&self, a: &FAnn) -> Vec<(String, usize, usize)> {
        let mut v = self.direct_texts(a);
        v.extend(self.offset_texts(a));
        for r in self.reach(&a.name) {
            if let Some(b) = self.ann(&r) {
                v.extend(self.direct_texts(b));
                v.extend(self.offset_texts(b));
            }
        }
        v
    }
    fn has_part_deep(&self, a: &FAnn, pred: &dyn Fn(&FRef) -> bool) -> Option<bool> {
        if a.parts.iter().any(|p| pred(p)) {
            return Some(true);
        }
        for r in self.reach(&a.name) {
            if let Some(b) = self.ann(&r) {
                if b.parts.iter().any(|p| pred(p)) {
                    return None;
                }
            }
        }
        Some(false)
    }
    fn on_text_of(&self, a: &FAnn, res: &str) -> Option<bool> {
        if self.direct_texts(a).iter().any(|t| t.0 == res) {
            Some(true)
        } else if self.possible_texts(a).iter().any(|t| t.0 == res) {
            None
        } else {
            Some(false)
        }
    }
    fn text_of(&self, t: &(String, usize, usize)) -> String {
        let r = self.sc.model.res.iter().flatten().find(|r| r.id == t.0);
        r.map(|r| char_slice(&r.text, t.1, t.2)).unwrap_or_default()
    }
    /// the text of an annotation with exactly one directly selected text; Some(None) = has no text at all
    fn single_text(&self, a: &FAnn) -> Option<Option<String>> {
        if a.kind == TKind::Simple {
            match &a.parts[0] {
                FRef::Text { res, b, e, .. } => return Some(Some(self.text_of(&(res.clone(), *b, *e)))),
                FRef::Res(_) | FRef::Set(_) | FRef::Key(..) | FRef::Data(..) => return Some(None),
                _ => {}
            }
        }
        None
    }
    fn data_match(&self, a: &FAnn, c: &Cs) -> Option<bool> {
        match c {
            Cs::Key { set, key, meta: false } => Some(a.data.iter().any(|(s, _, k, _)| s == set && k == key)),
            Cs::KeyVal { set, key, op, meta: false } => any3(a.data.iter().filter(|(s, _, k, _)| s == set && k == key).map(|(_, _, _, v)| vtest(op, v))),
            Cs::Val(op) => any3(a.data.iter().map(|(_, _, _, v)| vtest(op, v))),
            Cs::Set { id, meta: false } => Some(a.data.iter().any(|(s, _, _, _)| s == id)),
            _ => Some(false),
        }
    }
}

fn tsel_name(t: &(String, usize, usize)) -> String {
    format!("T:{}[{}:{}]", t.0, t.1, t.2)
}

fn from_tri(items: impl Iterator<Item = (String, Option<bool>)>) -> RefSet {
    let mut lower = BTreeSet::new();
    let mut upper = BTreeSet::new();
    for (n, t) in items {
        match t {
            Some(true) => {
                lower.insert(n.clone());
                upper.insert(n);
            }
            None => {
                upper.insert(n);
            }
            Some(false) => {}
        }
    }
    RefSet { lower, upper, primary_only: false }
}

fn exact(items: impl Iterator<Item = String>) -> RefSet {
    let lower: BTreeSet<String> = items.collect();
    RefSet { upper: lower.clone(), lower, primary_only: false }
}

/// all items of a result type (a SELECT without constraints)
pub fn reference_universe(sc: &SCtx, rt: Rt) -> RefSet {
    let f = Facts { sc };
    let m = &sc.model;
    match rt {
        Rt::Annotation => exact(sc.fwd.iter().map(|a| format!("A:{}", a.name))),
        Rt::Data => exact(m.sets.iter().flatten().flat_map(|s| s.data.iter().flatten().map(|x| format!("D:{}/{}={}", s.id, s.keys[x.key].clone().unwrap_or_default(), render_mval(&x.val))).collect::<Vec<_>>())),
        Rt::Key => exact(m.sets.iter().flatten().flat_map(|s| s.keys.iter().flatten().map(|k| format!("K:{}/{}", s.id, k)).collect::<Vec<_>>())),
        Rt::DataSet => exact(m.sets.iter().flatten().map(|s| format!("S:{}", s.id))),
        Rt::Resource => exact(m.res.iter().flatten().map(|r| format!("R:{}", r.id))),
        Rt::Text => {
            let lower: BTreeSet<String> = sc.fwd.iter().flat_map(|a| f.direct_texts(a)).map(|t| tsel_name(&t)).collect();
            let upper: BTreeSet<String> = sc.fwd.iter().flat_map(|a| f.possible_texts(a)).map(|t| tsel_name(&t)).collect();
            RefSet { lower, upper, primary_only: false }
        }
    }
}

fn check_o6_universe(rep: &Reporter, sc: &SCtx, cell: &Cell, cn: &Counts) {
    if cell.universe.fail.is_some() {
        return;
    }
    let r = reference_universe(sc, cell.rt);
    cn.case(!r.lower.is_empty());
    let got: BTreeSet<String> = cell.universe.rows.iter().filter_map(|r| r.first().cloned()).collect();
    let missing: Vec<&String> = r.lower.difference(&got).collect();
    let extra: Vec<&String> = got.difference(&r.upper).collect();
    let q = Qs::flat(cell.rt, vec![]);
    for (sym, items) in [("missing-items", &missing), ("extra-items", &extra)] {
        if !items.is_empty() {
            rep.fail(
                &format!("o6|{}|none|primary|{}", cell.rt.kw(), sym),
                sc.idx as u64,
                || format!("store {}: [SELECT {}] gives {} ; by the model the store holds {:?}; {}: {:?}", sc.name, cell.rt.kw(), cell.universe.show(), r.lower, sym, items),
                || case_json("o6-universe", sc, &q, json!({})),
            );
        }
    }
}

/// The documented meaning of a single constraint for a result type, evaluated on the model. `None` = not pinned down.
pub fn reference(sc: &SCtx, rt: Rt, c: &Cs) -> Option<RefSet> {
    let f = Facts { sc };
    let m = &sc.model;
    let all_data = || {
        let mut v: Vec<(String, String, Val)> = Vec::new();
        for s in m.sets.iter().flatten() {
            for x in s.data.iter().flatten() {
                v.push((s.id.clone(), s.keys[x.key].clone().unwrap_or_default(), x.val.clone()));
            }
        }
        v
    };
    let dname = |s: &str, k: &str, v: &Val| format!("D:{}/{}={}", s, k, render_mval(v));
    match rt {
        Rt::Annotation => {
            let aname = |a: &FAnn| format!("A:{}", a.name);
            match c {
                Cs::Id(id) => Some(exact(sc.fwd.iter().filter(|a| a.name == *id).map(aname))),
                Cs::Key { meta: false, .. } | Cs::KeyVal { meta: false, .. } | Cs::Val(_) | Cs::Set { meta: false, .. } => {
                    Some(from_tri(sc.fwd.iter().map(|a| (aname(a), f.data_match(a, c)))))
                }
                Cs::Set { id, meta: true } => Some(from_tri(sc.fwd.iter().map(|a| (aname(a), f.has_part_deep(a, &|p| matches!(p, FRef::Set(s) if s == id)))))),
                Cs::Res { id, meta: false, off: None } => Some(from_tri(sc.fwd.iter().map(|a| (aname(a), f.on_text_of(a, id))))),
                Cs::Res { id, meta: true, off: None } => Some(from_tri(sc.fwd.iter().map(|a| (aname(a), f.has_part_deep(a, &|p| matches!(p, FRef::Res(r) if r == id)))))),
                Cs::Ann { id, meta: false, rec: false } => {
                    let t: BTreeSet<String> = f.ann(id).map(|a| f.targets(a).into_iter().collect()).unwrap_or_default();
                    Some(exact(t.into_iter().map(|n| format!("A:{}", n))))
                }
                Cs::Ann { id, meta: false, rec: true } => Some(exact(f.reach(id).into_iter().map(|n| format!("A:{}", n)))),
                Cs::Ann { id, meta: true, rec: false } => Some(exact(sc.fwd.iter().filter(|a| f.targets(a).contains(id)).map(aname))),
                Cs::Ann { id, meta: true, rec: true } => Some(exact(sc.fwd.iter().filter(|a| f.reach(&a.name).contains(id)).map(aname))),
                Cs::Text { t, nocase } => Some(from_tri(sc.fwd.iter().map(|a| {
                    let r = f.single_text(a).map(|txt| match txt {
                        Some(txt) => {
                            if *nocase {
                                txt.to_lowercase() == t.to_lowercase()
                            } else {
                                txt == *t
                            }
                        }
                        None => false,
                    });
                    (aname(a), r)
                }))),
                Cs::Regex(re) => {
                    let re = regex::Regex::new(re).ok()?;
                    Some(from_tri(sc.fwd.iter().map(|a| (aname(a), f.single_text(a).map(|txt| txt.map(|t| re.is_match(&t)).unwrap_or(false))))))
                }
                _ => None,
            }
        }
        Rt::Data => match c {
            Cs::Key { set, key, meta: false } => Some(exact(all_data().iter().filter(|(s, k, _)| s == set && k == key).map(|(s, k, v)| dname(s, k, v)))),
            Cs::KeyVal { set, key, op, meta: false } => Some(from_tri(all_data().iter().filter(|(s, k, _)| s == set && k == key).map(|(s, k, v)| (dname(s, k, v), vtest(op, v))))),
            Cs::Val(op) => Some(from_tri(all_data().iter().map(|(s, k, v)| (dname(s, k, v), vtest(op, v))))),
            Cs::Set { id, meta: false } => Some(exact(all_data().iter().filter(|(s, _, _)| s == id).map(|(s, k, v)| dname(s, k, v)))),
            Cs::Ann { id, meta: false, .. } => Some(exact(f.ann(id).map(|a| a.data.clone()).unwrap_or_default().iter().map(|(s, _, k, v)| dname(s, k, v)))),
            _ => None,
        },
        Rt::Key => match c {
            Cs::Set { id, meta: false } => Some(exact(m.sets.iter().flatten().filter(|s| s.id == *id).flat_map(|s| s.keys.iter().flatten().map(|k| format!("K:{}/{}", s.id, k)).collect::<Vec<_>>()))),
            Cs::Ann { id, meta: false, .. } => Some(exact(f.ann(id).map(|a| a.data.clone()).unwrap_or_default().iter().map(|(s, _, k, _)| format!("K:{}/{}", s, k)))),
            _ => None,
        },
        Rt::DataSet => match c {
            Cs::Id(id) | Cs::Set { id, .. } => Some(exact(m.sets.iter().flatten().filter(|s| s.id == *id).map(|s| format!("S:{}", s.id)))),
            _ => None,
        },
        Rt::Resource => match c {
            Cs::Id(id) | Cs::Res { id, off: None, .. } => Some(exact(m.res.iter().flatten().filter(|r| r.id == *id).map(|r| format!("R:{}", r.id)))),
            Cs::Key { meta: false, .. } | Cs::KeyVal { meta: false, .. } => Some(from_tri(m.res.iter().flatten().map(|r| {
                let t = any3(sc.fwd.iter().map(|a| match (f.data_match(a, c), f.on_text_of(a, &r.id)) {
                    (Some(false), _) | (_, Some(false)) => Some(false),
                    (Some(true), Some(true)) => Some(true),
                    _ => None,
                }));
                (format!("R:{}", r.id), t)
            }))),
            Cs::Key { set, key, meta: true } => Some(from_tri(m.res.iter().flatten().map(|r| {
                let t = any3(sc.fwd.iter().map(|a| {
                    if !a.data.iter().any(|(s, _, k, _)| s == set && k == key) {
                        Some(false)
                    } else {
                        f.has_part_deep(a, &|p| matches!(p, FRef::Res(x) if *x == r.id))
                    }
                }));
                (format!("R:{}", r.id), t)
            }))),
            _ => None,
        },
        Rt::Text => match c {
            Cs::Res { id, off: None, .. } => Some(exact(m.res.iter().flatten().filter(|r| r.id == *id).flat_map(|r| r.sels.iter().map(|(b, e)| tsel_name(&(r.id.clone(), *b, *e))).collect::<Vec<_>>()))),
            Cs::Res { id, off: Some((b, e)), .. } => {
                let r = m.res.iter().flatten().find(|r| r.id == *id);
                let ok = r.map(|r| *b <= *e && *e <= r.len()).unwrap_or(false);
                let mut rs = exact(if ok { vec![tsel_name(&(id.clone(), *b, *e))] } else { vec![] }.into_iter());
                rs.primary_only = true;
                Some(rs)
            }
            Cs::Ann { id, .. } => {
                let a = f.ann(id);
                let lower: BTreeSet<String> = a.map(|a| f.direct_texts(a).iter().map(tsel_name).collect()).unwrap_or_default();
                let upper: BTreeSet<String> = a.map(|a| f.possible_texts(a).iter().map(tsel_name).collect()).unwrap_or_default();
                Some(RefSet { lower, upper, primary_only: false })
            }
            Cs::Key { meta: false, .. } | Cs::KeyVal { meta: false, .. } | Cs::Val(_) => {
                let mut lower = BTreeSet::new();
                let mut upper = BTreeSet::new();
                for a in &sc.fwd {
                    match f.data_match(a, c) {
                        Some(false) => {}
                        t => {
                            if t == Some(true) {
                                lower.extend(f.direct_texts(a).iter().map(tsel_name));
                            }
                            upper.extend(f.possible_texts(a).iter().map(tsel_name));
                        }
                    }
                }
                Some(RefSet { lower, upper, primary_only: false })
            }
            _ => None,
        },
    }
}

fn check_o6(rep: &Reporter, sc: &SCtx, rt: Rt, s: &Single, sup: &Support, cn: &Counts, ord: u64) {
    let r = match reference(sc, rt, &s.c) {
        Some(r) => r,
        None => return,
    };
    let (sp, ss) = sup_of(sup, rt, &s.c);
    for (pos, o, supported) in [("primary", &s.p, sp), ("secondary", &s.s, ss)] {
        if pos == "secondary" && r.primary_only {
            continue;
        }
        if !supported {
            cn.skipped_unsupported.fetch_add(1, Ordering::Relaxed);
            continue;
        }
        if o.fail.is_some() && !s.missing {
            continue; // panics are reported by o1
        }
        cn.case(!r.lower.is_empty());
        let got: BTreeSet<String> = o.rows.iter().filter_map(|r| r.first().cloned()).collect();
        let missing: Vec<&String> = r.lower.difference(&got).collect();
        let extra: Vec<&String> = got.difference(&r.upper).collect();
        let q = if pos == "primary" { q_primary(rt, &s.c) } else { q_secondary(rt, &s.c) };
        // "exactly the items": a row that comes twice is one row too many
        let first_cols: Vec<&String> = o.rows.iter().filter_map(|r| r.first()).collect();
        if first_cols.len() != got.len() {
            let mut seen = BTreeSet::new();
            let dups: Vec<&String> = first_cols.iter().filter(|x| !seen.insert(**x)).copied().collect();
            rep.fail(
                &format!("o6|{}|{}|{}|duplicate-rows", rt.kw(), s.fine, pos),
                tie(ord, &(&sc.name, &q)),
                || format!("store {}: [{}] gives {} ; rows returned more than once: {:?}", sc.name, text_q(&q).unwrap_or_else(|| format!("{:?}", q)), o.show(), dups),
                || case_json("o6", sc, &q, json!({"position": pos})),
            );
        }
        for (sym, items) in [("missing-items", &missing), ("extra-items", &extra)] {
            if !items.is_empty() {
                rep.fail(
                    &format!("o6|{}|{}|{}|{}", rt.kw(), s.fine, pos, sym),
                    tie(ord, &(&sc.name, &q)),
                    || format!("store {}: [{}] gives {} ; by the model the result must contain {:?} and be contained in {:?}; {}: {:?}", sc.name, text_q(&q).unwrap_or_else(|| format!("{:?}", q)), o.show(), r.lower, r.upper, sym, items),
                    || case_json("o6", sc, &q, json!({"position": pos})),
                );
            }
        }
    }
}

// ---- o5: three spellings ----------------------------------------------------------------------------------

fn tree_kinds(q: &Qs) -> String {
    let mut k: Vec<String> = q.cons.iter().map(coarse).collect();
    if k.is_empty() {
        k.push("none".into());
    }
    let mut s = format!("{}{}({})", if q.optional { "OPTIONAL " } else { "" }, q.rt.kw(), k.join(","));
    if !q.subs.is_empty() {
        let subs: Vec<String> = q.subs.iter().map(tree_kinds).collect();
        s.push_str(&format!("{{{}}}", subs.join("|")));
    }
    s
}

fn check_o5_text(rep: &Reporter, sc: &SCtx, q: &Qs, text_override: Option<String>, cn: &Counts, ord: u64) {
    let text = match text_override.or_else(|| text_q(q)) {
        Some(t) => t,
        None => return,
    };
    let prog = eval_qs(&sc.store, q);
    cn.case(!prog.rows.is_empty());
    match eval_text(&sc.store, &text) {
        Err(e) => {
            if uses_as_qualifier(q) {
                // `AS <qualifier>` forms do not parse at all: parser defect owned by C09, the constraint is exercised programmatically
                cn.as_qualifier_unparseable.fetch_add(1, Ordering::Relaxed);
                return;
            }
            rep.fail(
                &format!("o5|text|{}|does-not-parse|{}", tree_kinds(q), e),
                tie(ord, &(&sc.name, &text)),
                || format!("store {}: {:?} does not parse: {}", sc.name, text, e),
                || case_json("o5-text", sc, q, json!({"text": text})),
            );
        }
        Ok(t) => {
            cn.text_compared.fetch_add(1, Ordering::Relaxed);
            if t != prog {
                let sym = if t.is_panic() || prog.is_panic() {
                    "panic-in-one-spelling"
                } else if t.set() == prog.set() {
                    "same-set-different-rows"
                } else {
                    "different-results"
                };
                rep.fail(
                    &format!("o5|text|{}|{}", tree_kinds(q), sym),
                    tie(ord, &(&sc.name, &text)),
                    || format!("store {}: STAMQL {:?} gives {} but the same query built with Query::new()/with_constraint() gives {}", sc.name, text, t.show(), prog.show()),
                    || case_json("o5-text", sc, q, json!({"text": text})),
                );
            }
        }
    }
}

type BA<'s> = Box<dyn Iterator<Item = ResultItem<'s, Annotation>> + 's>;
type BD<'s> = Box<dyn Iterator<Item = ResultItem<'s, AnnotationData>> + 's>;
type BK<'s> = Box<dyn Iterator<Item = ResultItem<'s, DataKey>> + 's>;
type BR<'s> = Box<dyn Iterator<Item = ResultItem<'s, TextResource>> + 's>;
type BS<'s> = Box<dyn Iterator<Item = ResultItem<'s, AnnotationDataSet>> + 's>;
type BT<'s> = Box<dyn Iterator<Item = ResultTextSelection<'s>> + 's>;

/// The iterator-API spelling: the unconstrained iterator of the result type followed by one `filter_*` per
/// constraint. `None` = there is no such spelling (no corresponding filter method, or the item does not exist).
fn iter_spelling<'s>(store: &'s AnnotationStore, rt: Rt, cons: &'s [Cs]) -> Option<Vec<Row>> {
    let rows: Vec<String> = match rt {
        Rt::Annotation => {
            let mut it: BA<'s> = Box::new(store.annotations());
            for c in cons {
                it = match c {
                    Cs::Id(id) => Box::new(it.filter_one(&store.annotation(id.as_str())?)),
                    Cs::Key { set, key, meta: false } => Box::new(it.filter_key(&store.key(set.as_str(), key.as_str())?)),
                    Cs::KeyVal { set, key, op, meta: false } => Box::new(it.filter_key_value(&store.key(set.as_str(), key.as_str())?, vs_op(op))),
                    Cs::Val(op) => Box::new(it.filter_value(vs_op(op))),
                    Cs::Set { id, meta: false } => Box::new(it.filter_set(&store.dataset(id.as_str())?)),
                    Cs::Res { id, meta: false, off: None } => Box::new(it.filter_resource(&store.resource(id.as_str())?)),
                    Cs::Res { id, meta: true, off: None } => Box::new(it.filter_resource_as_metadata(&store.resource(id.as_str())?)),
                    Cs::Ann { id, meta: false, rec: false } => Box::new(it.filter_annotation(&store.annotation(id.as_str())?)),
                    Cs::Ann { id, meta: true, rec } => Box::new(it.filter_annotation_in_targets(&store.annotation(id.as_str())?, depth(*rec))),
                    Cs::Text { t, nocase: false } => Box::new(it.filter_text_byref(t.as_str(), true, " ")),
                    Cs::Text { t, nocase: true } => Box::new(it.filter_text(t.clone(), false, " ")),
                    Cs::Regex(r) => Box::new(it.filter_text_regex(regex::Regex::new(r).ok()?, " ")),
                    _ => return None,
                };
            }
            it.map(|a| render_ann(&a)).collect()
        }
        Rt::Data => {
            let mut it: BD<'s> = Box::new(store.data());
            for c in cons {
                it = match c {
                    Cs::Key { set, key, meta: false } => Box::new(it.filter_key(&store.key(set.as_str(), key.as_str())?)),
                    Cs::KeyVal { set, key, op, meta: false } => Box::new(it.filter_key(&store.key(set.as_str(), key.as_str())?).filter_value(vs_op(op))),
                    Cs::Val(op) => Box::new(it.filter_value(vs_op(op))),
                    Cs::Set { id, meta: false } => Box::new(it.filter_set(&store.dataset(id.as_str())?)),
                    Cs::Ann { id, meta: false, rec: false } => Box::new(it.filter_annotation(&store.annotation(id.as_str())?)),
                    _ => return None,
                };
            }
            it.map(|x| render_data(&x)).collect()
        }
        Rt::Key => {
            let mut it: BK<'s> = Box::new(store.keys());
            for c in cons {
                it = match c {
                    Cs::Set { id, meta: false } => Box::new(it.filter_set(&store.dataset(id.as_str())?)),
                    Cs::Ann { id, meta: false, rec: false } => Box::new(it.filter_annotation(&store.annotation(id.as_str())?)),
                    _ => return None,
                };
            }
            it.map(|x| render_key(&x)).collect()
        }
        Rt::DataSet => {
            let mut it: BS<'s> = Box::new(store.datasets());
            for c in cons {
                it = match c {
                    Cs::Id(id) | Cs::Set { id, meta: false } => Box::new(it.filter_handle(store.dataset(id.as_str())?.handle())),
                    _ => return None,
                };
            }
            it.map(|x| format!("S:{}", x.id().unwrap_or("?"))).collect()
        }
        Rt::Resource => {
            let mut it: BR<'s> = Box::new(store.resources());
            for c in cons {
                it = match c {
                    Cs::Id(id) | Cs::Res { id, meta: false, off: None } => Box::new(it.filter_one(&store.resource(id.as_str())?)),
                    Cs::Key { set, key, meta: false } => Box::new(it.filter_key_on_text(&store.key(set.as_str(), key.as_str())?)),
                    Cs::Key { set, key, meta: true } => Box::new(it.filter_key_in_metadata(&store.key(set.as_str(), key.as_str())?)),
                    Cs::KeyVal { set, key, op, meta: false } => Box::new(it.filter_key_value_on_text(&store.key(set.as_str(), key.as_str())?, vs_op(op))),
                    Cs::KeyVal { set, key, op, meta: true } => Box::new(it.filter_key_value_in_metadata(&store.key(set.as_str(), key.as_str())?, vs_op(op))),
                    _ => return None,
                };
            }
            it.map(|x| format!("R:{}", x.id().unwrap_or("?"))).collect()
        }
        Rt::Text => {
            let mut it: BT<'s> = Box::new(store.annotations().textselections());
            for c in cons {
                it = match c {
                    Cs::Res { id, meta: false, off: None } => Box::new(it.filter_resource(&store.resource(id.as_str())?)),
                    Cs::Key { set, key, meta: false } => Box::new(it.filter_key(&store.key(set.as_str(), key.as_str())?)),
                    Cs::KeyVal { set, key, op, meta: false } => Box::new(it.filter_key_value(&store.key(set.as_str(), key.as_str())?, vs_op(op))),
                    Cs::Val(op) => Box::new(it.filter_value(vs_op(op))),
                    Cs::Text { t, nocase: false } => Box::new(it.filter_text_byref(t.as_str(), true)),
                    Cs::Text { t, nocase: true } => Box::new(it.filter_text(t.clone(), false)),
                    Cs::Regex(r) => Box::new(it.filter_text_regex(regex::Regex::new(r).ok()?)),
                    _ => return None,
                };
            }
            it.map(|x| render_tsel(&x)).collect()
        }
    };
    Some(rows.into_iter().map(|r| vec![r]).collect())
}

/// `alt` = the result of the same single constraint in secondary position, when the two implementations are
/// known to disagree (o1): the iterator spelling then has to agree with one of them
fn check_o5_iter(rep: &Reporter, sc: &SCtx, rt: Rt, cons: &[Cs], alt: Option<&Out>, both_supported: bool, cn: &Counts, ord: u64) {
    EVALS.fetch_add(1, Ordering::Relaxed);
    let r = catch(|| iter_spelling(&sc.store, rt, cons));
    let q = Qs::flat(rt, cons.to_vec());
    let mut kinds: Vec<String> = cons.iter().map(coarse).collect();
    if kinds.is_empty() {
        kinds.push("none".into());
    }
    match r {
        Err(p) => {
            let f = panic_class(&p);
            rep.fail(
                &format!("o5|iterator|{}|{}|panic:{}", rt.kw(), kinds.join(","), f),
                tie(ord, &(&sc.name, &q)),
                || format!("store {}: the filter_* chain for [{}] panics: {}", sc.name, text_q(&q).unwrap_or_else(|| format!("{:?}", q)), p),
                || case_json("o5-iter", sc, &q, json!({})),
            );
        }
        Ok(None) => {}
        Ok(Some(rows)) => {
            let prog = eval_qs(&sc.store, &q);
            cn.case(!prog.rows.is_empty());
            cn.iter_compared.fetch_add(1, Ordering::Relaxed);
            if prog.is_panic() {
                return; // reported by o1
            }
            let got: BTreeSet<Row> = rows.iter().cloned().collect();
            if got != prog.set() {
                if let Some(a) = alt {
                    // the two query implementations disagree (o1): the filter chain can only be judged against a
                    // position in which the kind works at all
                    if a.set() == got || (!a.rows.is_empty() && !prog.rows.is_empty()) || both_supported {
                        cn.skipped_attributed.fetch_add(1, Ordering::Relaxed);
                        return;
                    }
                }
                let rel = set_relation(&got, &prog.set(), "iterator", "query");
                rep.fail(
                    &format!("o5|iterator|{}|{}|differs-from-query|{}", rt.kw(), kinds.join(","), rel),
                    tie(ord, &(&sc.name, &q)),
                    || format!("store {}: the filter_* chain gives {:?} but the query [{}] gives {}", sc.name, rows, text_q(&q).unwrap_or_else(|| format!("{:?}", q)), prog.show()),
                    || case_json("o5-iter", sc, &q, json!({})),
                );
            }
        }
    }
}

// ---- o4: sub-queries = nested iteration -----------------------------------------------------------------------

/// Reference rows by explicit nested loops: every (sub)query is evaluated on its own, with the variables of the
/// enclosing rows bound through context variables (`Query::bind_from_result`).
fn nested_ref<'s>(store: &'s AnnotationStore, q: &'s Qs, binds: &[(String, QueryResultItem<'s>)], prefix: &[String], out: &mut Vec<Row>) -> Result<(), String> {
    let mut query = build_q(q, false)?;
    for (n, item) in binds {
        query.bind_from_result(n.clone(), item);
    }
    let (rows, fail) = eval_items(store, query);
    if let Some(f) = fail {
        if !f.starts_with("err:") {
            return Err(f);
        }
    }
    for row in rows {
        let item = match row.iter().next() {
            Some(i) => i.clone(),
            None => continue,
        };
        let mut p = prefix.to_vec();
        p.push(render_item(&item));
        if q.subs.is_empty() {
            out.push(p);
            continue;
        }
        let sub = &q.subs[0];
        let mut b = binds.to_vec();
        if let Some(n) = &q.name {
            b.push((n.clone(), item));
        }
        let before = out.len();
        nested_ref(store, sub, &b, &p, out)?;
        if out.len() == before && sub.optional {
            out.push(p);
        }
    }
    Ok(())
}

fn qual_pattern(q: &Qs) -> String {
    let mut v = vec![if q.optional { "optional" } else { "normal" }.to_string()];
    let mut cur = q;
    while let Some(s) = cur.subs.first() {
        v.push(if s.optional { "optional" } else { "normal" }.to_string());
        cur = s;
    }
    v.join(">")
}

fn var_kinds(q: &Qs) -> String {
    let mut v = Vec::new();
    let mut cur = q;
    while let Some(s) = cur.subs.first() {
        let k: Vec<String> = s.cons.iter().map(coarse).filter(|k| k.contains('?')).collect();
        v.push(format!("{}:{}", s.rt.kw(), k.join(",")));
        cur = s;
    }
    format!("{}>{}", q.rt.kw(), v.join(">"))
}

/// returns true when the nested query produced at least one row (used to decide which templates are supported)
fn check_o4(rep: &Reporter, sc: &SCtx, q: &Qs, cn: &Counts, ord: u64, report: bool) -> bool {
    let got = eval_qs(&sc.store, q);
    if !report {
        return !got.rows.is_empty();
    }
    let mut want: Vec<Row> = Vec::new();
    let r = catch(|| nested_ref(&sc.store, q, &[], &[], &mut want));
    cn.case(!want.is_empty());
    let depth_n = qual_pattern(q).matches('>').count();
    let sig_base = format!("o4|depth={}|{}", depth_n, qual_pattern(q));
    if got.is_panic() {
        let f = got.fail.clone().unwrap_or_default();
        rep.fail(&format!("{}|{}|{}", sig_base, var_kinds(q), f), tie(ord, &(&sc.name, q)), || format!("store {}: [{}]: {}", sc.name, text_q(q).unwrap_or_else(|| format!("{:?}", q)), f), || case_json("o4", sc, q, json!({})));
        return false;
    }
    match r {
        Ok(Ok(())) => {}
        _ => return !got.rows.is_empty(), // the stand-alone evaluation itself failed: reported elsewhere (o1)
    }
    if got.rows != want {
        let gs: BTreeSet<Row> = got.set();
        let ws: BTreeSet<Row> = want.iter().cloned().collect();
        let sym = if got.rows.len() < want.len() && want[..got.rows.len()] == got.rows[..] {
            // a prefix of the expected rows: where did the iteration stop?
            match got.rows.last() {
                Some(last) if last.len() <= depth_n => "iteration-ends-after-first-row-without-optional-match".to_string(),
                Some(_) => "iteration-ends-early".to_string(),
                None => "no-rows-at-all".to_string(),
            }
        } else if gs == ws {
            if got.rows.len() != want.len() {
                "row-multiplicity-differs".to_string()
            } else {
                "row-order-differs".to_string()
            }
        } else {
            set_relation(&gs, &ws, "nested", "loops")
        };
        rep.fail(
            &format!("{}|{}", sig_base, sym),
            tie(ord, &(&sc.name, q)),
            || format!("store {}: [{}] gives {} but evaluating the inner query once per outer row (variable bound via with_*var) gives {:?}", sc.name, text_q(q).unwrap_or_else(|| format!("{:?}", q)), got.show(), want),
            || case_json("o4", sc, q, json!({})),
        );
    }
    !got.rows.is_empty()
}

/// variable constraints an inner query can use, given the type of the variable
fn var_constraints(outer: Rt, var: &str, ops: &[&str]) -> Vec<Cs> {
    let v = var.to_string();
    let mut out = Vec::new();
    match outer {
        Rt::Annotation => {
            for op in ops {
                out.push(Cs::Rel { var: v.clone(), op: op.to_string() });
            }
            for (meta, rec) in [(false, false), (true, false), (false, true), (true, true)] {
                out.push(Cs::AnnVar { var: v.clone(), meta, rec });
            }
            out.push(Cs::TextVar(v.clone()));
        }
        Rt::Text => {
            for op in ops {
                out.push(Cs::Rel { var: v.clone(), op: op.to_string() });
            }
            out.push(Cs::TextVar(v.clone()));
        }
        Rt::Data => out.push(Cs::DataVar(v.clone())),
        Rt::Key => out.push(Cs::KeyVar(v.clone())),
        Rt::Resource => {
            out.push(Cs::ResVar { var: v.clone(), meta: false });
            out.push(Cs::ResVar { var: v.clone(), meta: true });
        }
        Rt::DataSet => out.push(Cs::SetVar(v.clone())),
    }
    out
}

/// depth-1 templates: outer ?x { inner with a constraint on ?x }, the variable constraint alone / first / second
fn templates_depth1(ops: &[&str], plain: &BTreeMap<Rt, Cs>) -> Vec<Qs> {
    let mut out = Vec::new();
    for outer in RTS {
        for inner in RTS {
            for vc in var_constraints(outer, "x", ops) {
                let mut shapes: Vec<Vec<Cs>> = vec![vec![vc.clone()]];
                if let Some(p) = plain.get(&inner) {
                    shapes.push(vec![vc.clone(), p.clone()]);
                    shapes.push(vec![p.clone(), vc.clone()]);
                }
                for cons in shapes {
                    for optional in [false, true] {
                        let sub = Qs::named(inner, "y", cons.clone()).opt(optional);
                        out.push(Qs::named(outer, "x", vec![]).with_sub(sub));
                    }
                }
            }
        }
    }
    out
}

fn templates_depth2(ops: &[&str]) -> Vec<Qs> {
    let mut out = Vec::new();
    for xrt in [Rt::Annotation, Rt::Text] {
        for yrt in [Rt::Annotation, Rt::Text, Rt::Data] {
            for v1 in var_constraints(xrt, "x", ops) {
                for zrt in [Rt::Annotation, Rt::Text] {
                    let mut v2s = var_constraints(xrt, "x", ops);
                    v2s.extend(var_constraints(yrt, "y", ops));
                    for v2 in v2s {
                        for (oy, oz) in [(false, false), (false, true), (true, true)] {
                            let z = Qs::named(zrt, "z", vec![v2.clone()]).opt(oz);
                            let y = Qs::named(yrt, "y", vec![v1.clone()]).opt(oy).with_sub(z);
                            out.push(Qs::named(xrt, "x", vec![]).with_sub(y));
                        }
                    }
                }
            }
        }
    }
    out
}

fn strip_optional(q: &Qs) -> Qs {
    let mut q = q.clone();
    q.optional = false;
    q.subs = q.subs.iter().map(strip_optional).collect();
    q
}

fn has_optional(q: &Qs) -> bool {
    q.optional || q.subs.iter().any(has_optional)
}

// ---- o7: ADD / DELETE = the equivalent direct calls --------------------------------------------------------------

#[derive(Clone, Debug, Serialize, Deserialize)]
pub enum AddVal {
    None,
    S(String),
    I(i64),
}

#[derive(Clone, Debug, Serialize, Deserialize)]
pub struct AddCase {
    pub feature: String,
    pub sub: Qs,
    /// variables named in TARGET assignments, in order
    pub targets: Vec<String>,
    pub offset: Option<(usize, usize)>,
    pub id: Option<String>,
    pub value: AddVal,
    pub complex: Option<String>,
}

fn add_text(c: &AddCase) -> Option<String> {
    let mut s = String::from("ADD ANNOTATION ?a WITH");
    if let Some(id) = &c.id {
        s.push_str(&format!(" ID \"{}\";", id));
    }
    match &c.value {
        AddVal::None => {}
        AddVal::S(v) => s.push_str(&format!(" DATA \"s1\" \"k1\" \"{}\";", v)),
        AddVal::I(i) => s.push_str(&format!(" DATA \"s1\" \"k1\" {};", i)),
    }
    if let Some(k) = &c.complex {
        s.push_str(&format!(" {}", k));
    }
    for t in &c.targets {
        s.push_str(&format!(" TARGET ?{}", t));
        if let Some((b, e)) = c.offset {
            s.push_str(&format!(" OFFSET {} {}", b, e));
        }
        s.push(';');
    }
    s.push_str(&format!(" {{ {} }}", text_q(&c.sub)?));
    Some(s)
}

/// owned description of a result item, from which the direct call's target is built
fn item_target(item: &QueryResultItem, offset: Option<(usize, usize)>) -> Option<TSimple> {
    Some(match item {
        QueryResultItem::TextSelection(t) => {
            let (b, e) = match offset {
                Some((b, e)) => (t.begin() + b, t.begin() + e),
                None => (t.begin(), t.end()),
            };
            TSimple::Text { res: t.resource().id()?.to_string(), off: Off::simple(b, e) }
        }
        QueryResultItem::Annotation(a) => TSimple::Ann { ann: a.id()?.to_string(), off: offset.map(|(b, e)| Off::simple(b, e)) },
        QueryResultItem::TextResource(r) => TSimple::Res(r.id()?.to_string()),
        QueryResultItem::AnnotationDataSet(s) => TSimple::Set(s.id()?.to_string()),
        QueryResultItem::DataKey(k) => TSimple::Key(k.set().id()?.to_string(), k.as_str().to_string()),
        QueryResultItem::AnnotationData(x) => TSimple::Data(x.set().id()?.to_string(), DRef::H(x.handle().as_usize())),
        _ => return None,
    })
}

fn first_diff(a: &str, b: &str) -> String {
    for (x, y) in a.lines().zip(b.lines()) {
        if x != y {
            let sec = x.split('=').next().unwrap_or("?");
            let sec: String = sec.chars().map(|c| if c.is_ascii_digit() { 'N' } else { c }).collect();
            return sec;
        }
    }
    "length".into()
}

fn outcome_class(o: &Outcome) -> &'static str {
    match o {
        Outcome::Ok => "ok",
        Outcome::Err(_) => "err",
        Outcome::Panic(_) => "panic",
    }
}

fn run_mut_query(store: &mut AnnotationStore, q: Query) -> (Outcome, Vec<Row>) {
    EVALS.fetch_add(1, Ordering::Relaxed);
    let r = catch(|| match store.query_mut(q) {
        Ok(it) => {
            let rows: Vec<Row> = it.take(ROWCAP).map(|r| r.iter().map(render_item).collect()).collect();
            (Outcome::Ok, rows)
        }
        Err(e) => (Outcome::Err(err_class(&e)), Vec::new()),
    });
    match r {
        Ok(x) => x,
        Err(p) => (Outcome::Panic(panic_class(&p)), Vec::new()),
    }
}

fn check_o7_add(rep: &Reporter, sc: &SCtx, c: &AddCase, cn: &Counts, ord: u64) {
    let text = match add_text(c) {
        Some(t) => t,
        None => return,
    };
    // the rows of the sub-select, evaluated on an untouched copy: these determine the equivalent direct calls
    let mut ops: Vec<Op> = Vec::new();
    {
        let (rows, fail) = match build_q(&c.sub, true) {
            Ok(q) => eval_items(&sc.store, q),
            Err(_) => return,
        };
        if fail.is_some() {
            return;
        }
        for row in &rows {
            let mut parts = Vec::new();
            for t in &c.targets {
                match row.get_by_name(t).ok().and_then(|i| item_target(i, c.offset)) {
                    Some(p) => parts.push(p),
                    None => return,
                }
            }
            let kind = match (parts.len(), c.complex.as_deref()) {
                (1, None) => TKind::Simple,
                (_, Some("MULTI")) => TKind::Multi,
                (_, Some("DIRECTIONAL")) => TKind::Directional,
                _ => TKind::Composite,
            };
            let data = match &c.value {
                AddVal::None => vec![],
                AddVal::S(v) => vec![d("s1", "k1", Val::S(v.clone()))],
                AddVal::I(i) => vec![d("s1", "k1", Val::I(*i))],
            };
            ops.push(Op::Annotate { id: c.id.clone(), target: Target { kind, parts }, data });
        }
    }
    cn.case(!ops.is_empty());
    let case = || json!({"oracle": "o7-add", "store": sc.name, "history": hist_json(sc), "add": c, "stamql": text});
    let (mut s_query, _) = replay_real(&sc.hist);
    let (mut s_direct, _) = replay_real(&sc.hist);
    let parsed = catch(|| -> Result<Query, StamError> { text.as_str().try_into() });
    let q = match parsed {
        Ok(Ok(q)) => q,
        other => {
            let e = match other {
                Ok(Err(e)) => panic_class(&e.to_string()),
                Err(p) => format!("panic:{}", panic_class(&p)),
                _ => String::new(),
            };
            rep.fail(&format!("o7|ADD|{}|does-not-parse|{}", c.feature, e), ord, || format!("{:?} does not parse: {}", text, e), case);
            return;
        }
    };
    let (oq, rows) = run_mut_query(&mut s_query, q);
    let mut od = Outcome::Ok;
    for op in &ops {
        EVALS.fetch_add(1, Ordering::Relaxed);
        od = apply_real(&mut s_direct, op);
        if !od.is_ok() {
            break;
        }
    }
    let direct_desc = || ops.iter().map(|o| o.short()).collect::<Vec<_>>().join("; ");
    if let Outcome::Panic(p) = &oq {
        rep.fail(&format!("o7|ADD|{}|panic:{}", c.feature, p), ord, || format!("store {}: query_mut({:?}) panics: {}", sc.name, text, p), case);
        return;
    }
    if outcome_class(&oq) != outcome_class(&od) {
        rep.fail(
            &format!("o7|ADD|{}|outcome:query={},direct={}", c.feature, outcome_class(&oq), outcome_class(&od)),
            ord,
            || format!("store {}: query_mut({:?}) -> {} but the direct calls [{}] -> {}", sc.name, text, oq.class(), direct_desc(), od.class()),
            case,
        );
        return;
    }
    let (dq, dd) = (catch(|| s_query.verif_dump()).unwrap_or_default(), catch(|| s_direct.verif_dump()).unwrap_or_default());
    if dq != dd {
        let sec = first_diff(&dq, &dd);
        rep.fail(
            &format!("o7|ADD|{}|store-differs-from-direct-calls", c.feature),
            ord,
            || {
                let (lq, ld) = dq.lines().zip(dd.lines()).find(|(x, y)| x != y).unwrap_or(("", ""));
                format!("store {}: after query_mut({:?}) the store differs from the one after [{}] (first difference in {}): query: {:.300} / direct: {:.300}", sc.name, text, direct_desc(), sec, lq, ld)
            },
            case,
        );
    } else if oq.is_ok() && rows.len() != ops.len() {
        rep.fail(
            &format!("o7|ADD|{}|returned-rows:{}", c.feature, if rows.len() < ops.len() { "too-few" } else { "too-many" }),
            ord,
            || format!("store {}: query_mut({:?}) added {} annotations but returned rows {:?}", sc.name, text, ops.len(), rows),
            case,
        );
    }
}

fn add_cases(sc: &SCtx) -> Vec<AddCase> {
    let v = vocab(sc);
    let r1 = match v.res.first() {
        Some(r) => r.clone(),
        None => return vec![],
    };
    let tsel = Qs::named(Rt::Text, "x", vec![Cs::Res { id: r1.clone(), meta: false, off: Some((0, 2)) }]);
    let base = AddCase { feature: "target:TEXT".into(), sub: tsel.clone(), targets: vec!["x".into()], offset: None, id: None, value: AddVal::S("new".into()), complex: None };
    let mut out = vec![base.clone()];
    let mut push = |feature: &str, f: &dyn Fn(&mut AddCase)| {
        let mut c = base.clone();
        c.feature = feature.to_string();
        f(&mut c);
        out.push(c);
    };
    push("value:int", &|c| c.value = AddVal::I(42));
    push("value:existing-string", &|c| c.value = AddVal::S("x".into()));
    push("value:none", &|c| c.value = AddVal::None);
    push("id", &|c| c.id = Some("new".into()));
    push("id:duplicate", &|c| c.id = v.anns.first().cloned().or(Some("new".into())));
    push("target:TEXT+offset", &|c| c.offset = Some((0, 1)));
    push("target:RESOURCE", &|c| c.sub = Qs::named(Rt::Resource, "x", vec![Cs::Id(r1.clone())]));
    push("rows:zero", &|c| c.sub = Qs::named(Rt::Annotation, "x", vec![Cs::Id("zz".into())]));
    if let Some(a) = v.anns.first() {
        push("target:ANNOTATION", &|c| c.sub = Qs::named(Rt::Annotation, "x", vec![Cs::Id(a.clone())]));
        if let Some((s, k)) = v.keys.first() {
            push("rows:many-annotations", &|c| c.sub = Qs::named(Rt::Annotation, "x", vec![Cs::Key { set: s.clone(), key: k.clone(), meta: false }]));
        }
        push("rows:many-text", &|c| c.sub = Qs::named(Rt::Text, "x", vec![Cs::Res { id: r1.clone(), meta: false, off: None }]));
    }
    if v.anns.len() >= 2 {
        let two = Qs::named(Rt::Annotation, "x", vec![Cs::Id(v.anns[0].clone())]).with_sub(Qs::named(Rt::Annotation, "y", vec![Cs::Id(v.anns[1].clone())]));
        push("targets:two(default-composite)", &|c| {
            c.sub = two.clone();
            c.targets = vec!["x".into(), "y".into()];
        });
        push("targets:two+MULTI", &|c| {
            c.sub = two.clone();
            c.targets = vec!["x".into(), "y".into()];
            c.complex = Some("MULTI".into());
        });
    }
    if let Some(s) = v.sets.first() {
        push("target:DATASET", &|c| c.sub = Qs::named(Rt::DataSet, "x", vec![Cs::Id(s.clone())]));
        push("target:KEY", &|c| c.sub = Qs::named(Rt::Key, "x", vec![Cs::Set { id: s.clone(), meta: false }]));
        push("target:DATA", &|c| c.sub = Qs::named(Rt::Data, "x", vec![Cs::Set { id: s.clone(), meta: false }]));
    }
    out
}

#[derive(Clone, Debug, Serialize, Deserialize)]
pub struct DelCase {
    pub feature: String,
    pub sub: Qs,
    /// spelled as STAMQL text (only DELETE ANNOTATION is in the grammar) or built with Query::new()
    pub as_text: bool,
}

fn del_cases(sc: &SCtx) -> Vec<DelCase> {
    let v = vocab(sc);
    let mut out = Vec::new();
    let mut push = |feature: &str, sub: Qs, as_text: bool| out.push(DelCase { feature: feature.to_string(), sub, as_text });
    for (i, a) in v.anns.iter().enumerate() {
        let f = Facts { sc };
        let targeted = sc.fwd.iter().any(|b| f.targets(b).contains(a));
        let feature = if targeted { "ANNOTATION:by-id(has-dependents)" } else { "ANNOTATION:by-id" };
        push(feature, Qs::named(Rt::Annotation, "x", vec![Cs::Id(a.clone())]), true);
        if i == 0 {
            push("ANNOTATION:by-id(programmatic)", Qs::named(Rt::Annotation, "x", vec![Cs::Id(a.clone())]), false);
        }
    }
    push("ANNOTATION:no-match", Qs::named(Rt::Annotation, "x", vec![Cs::Id("zz".into())]), true);
    for (s, k) in v.keys.iter().take(2) {
        push("ANNOTATION:by-key", Qs::named(Rt::Annotation, "x", vec![Cs::Key { set: s.clone(), key: k.clone(), meta: false }]), true);
        push("KEY(programmatic)", Qs::named(Rt::Key, "x", vec![Cs::Set { id: s.clone(), meta: false }]), false);
        push("DATA(programmatic)", Qs::named(Rt::Data, "x", vec![Cs::Key { set: s.clone(), key: k.clone(), meta: false }]), false);
    }
    for r in &v.res {
        let annotated = sc.model.res.iter().flatten().find(|x| x.id == *r).map(|x| !x.sels.is_empty()).unwrap_or(false);
        push(if annotated { "RESOURCE(programmatic)" } else { "RESOURCE(programmatic,no-text-annotations)" }, Qs::named(Rt::Resource, "x", vec![Cs::Id(r.clone())]), false);
    }
    for s in &v.sets {
        push("DATASET(programmatic)", Qs::named(Rt::DataSet, "x", vec![Cs::Id(s.clone())]), false);
    }
    out
}

fn check_o7_del(rep: &Reporter, sc: &SCtx, c: &DelCase, cn: &Counts, ord: u64) {
    let mut ops: Vec<Op> = Vec::new();
    {
        let (rows, fail) = match build_q(&c.sub, true) {
            Ok(q) => eval_items(&sc.store, q),
            Err(_) => return,
        };
        if fail.is_some() {
            return;
        }
        for row in &rows {
            let op = match row.iter().next() {
                Some(QueryResultItem::Annotation(a)) => a.id().map(|i| Op::RemoveAnn(i.to_string())),
                Some(QueryResultItem::TextResource(r)) => r.id().map(|i| Op::RemoveRes(i.to_string())),
                Some(QueryResultItem::AnnotationDataSet(s)) => s.id().map(|i| Op::RemoveSet(i.to_string())),
                Some(QueryResultItem::DataKey(k)) => k.set().id().map(|s| Op::RemoveKey { set: s.to_string(), key: k.as_str().to_string(), strict: true }),
                Some(QueryResultItem::AnnotationData(x)) => x.set().id().map(|s| Op::RemoveData { set: s.to_string(), data: DRef::H(x.handle().as_usize()), strict: true }),
                _ => None,
            };
            match op {
                Some(op) => ops.push(op),
                None => return,
            }
        }
    }
    cn.case(!ops.is_empty());
    let text = format!("DELETE {} ?x {{ {} }}", c.sub.rt.kw(), text_q(&c.sub).unwrap_or_default());
    let case = || json!({"oracle": "o7-del", "store": sc.name, "history": hist_json(sc), "del": c, "stamql": text});
    let (mut s_query, _) = replay_real(&sc.hist);
    let (mut s_direct, _) = replay_real(&sc.hist);
    let q: Query = if c.as_text {
        match catch(|| -> Result<Query, StamError> { text.as_str().try_into() }) {
            Ok(Ok(q)) => q,
            other => {
                let e = match other {
                    Ok(Err(e)) => panic_class(&e.to_string()),
                    Err(p) => format!("panic:{}", panic_class(&p)),
                    _ => String::new(),
                };
                rep.fail(&format!("o7|DELETE|{}|does-not-parse|{}", c.feature, e), ord, || format!("{:?} does not parse: {}", text, e), case);
                return;
            }
        }
    } else {
        match build_q(&c.sub, true) {
            Ok(sub) => Query::new(QueryType::Delete, Some(c.sub.rt.ty()), Some("x")).with_subquery(sub),
            Err(_) => return,
        }
    };
    let (oq, _) = run_mut_query(&mut s_query, q);
    let mut od = Outcome::Ok;
    for op in &ops {
        EVALS.fetch_add(1, Ordering::Relaxed);
        od = apply_real(&mut s_direct, op);
        if !od.is_ok() {
            break;
        }
    }
    let direct_desc = || ops.iter().map(|o| o.short()).collect::<Vec<_>>().join("; ");
    if let Outcome::Panic(p) = &oq {
        // a panic of the direct call as well is the removal defect itself (C02), not a query defect
        let both = matches!(od, Outcome::Panic(_));
        rep.fail(
            &format!("o7|DELETE|{}|panic{}:{}", c.feature, if both { "(also-in-direct-call)" } else { "" }, p),
            ord,
            || format!("store {}: query_mut({}) panics: {} ; direct calls [{}] -> {}", sc.name, text, p, direct_desc(), od.class()),
            case,
        );
        return;
    }
    if outcome_class(&oq) != outcome_class(&od) {
        rep.fail(
            &format!("o7|DELETE|{}|outcome:query={},direct={}", c.feature, outcome_class(&oq), outcome_class(&od)),
            ord,
            || format!("store {}: query_mut({}) -> {} but the direct calls [{}] -> {}", sc.name, text, oq.class(), direct_desc(), od.class()),
            case,
        );
        return;
    }
    let (dq, dd) = (catch(|| s_query.verif_dump()).unwrap_or_default(), catch(|| s_direct.verif_dump()).unwrap_or_default());
    if dq != dd {
        let sec = first_diff(&dq, &dd);
        rep.fail(
            &format!("o7|DELETE|{}|store-differs-from-direct-calls", c.feature),
            ord,
            || {
                let (lq, ld) = dq.lines().zip(dd.lines()).find(|(x, y)| x != y).unwrap_or(("", ""));
                format!("store {}: after query_mut({}) the store differs from the one after [{}] (first difference in {}): query: {:.300} / direct: {:.300}", sc.name, text, direct_desc(), sec, lq, ld)
            },
            case,
        );
    }
}

// =====================================================================================================
// helper collections: Handles<T> and LimitIter, exhaustively
// =====================================================================================================

const HVARIANTS: [&str; 3] = ["asc-sorted", "asc-unsorted", "desc-unsorted"];

fn hvariant(sub: &[usize], variant: usize) -> Option<(Vec<usize>, bool)> {
    match variant {
        0 => Some((sub.to_vec(), true)),
        1 => Some((sub.to_vec(), false)),
        _ => {
            if sub.len() < 2 {
                None
            } else {
                Some((sub.iter().rev().copied().collect(), false))
            }
        }
    }
}

fn mk_handles<'s>(store: &'s AnnotationStore, arr: &[usize], sorted: bool) -> Handles<'s, Annotation> {
    Handles::new(Cow::Owned(arr.iter().map(|i| AnnotationHandle::new(*i)).collect()), sorted, store)
}

fn is_subsequence(small: &[usize], big: &[usize]) -> bool {
    let mut it = big.iter();
    small.iter().all(|x| it.any(|y| y == x))
}

fn check_handles_case(rep: &Reporter, store: &AnnotationStore, a: &[usize], va: usize, b: &[usize], vb: usize, ord: u64) -> u64 {
    let (aa, asorted) = match hvariant(a, va) {
        Some(x) => x,
        None => return 0,
    };
    let (ba, bsorted) = match hvariant(b, vb) {
        Some(x) => x,
        None => return 0,
    };
    let sa: BTreeSet<usize> = a.iter().copied().collect();
    let sb: BTreeSet<usize> = b.iter().copied().collect();
    let mut calls = 0;
    for opname in ["union", "intersection"] {
        calls += 1;
        let r = catch(|| {
            let mut h = mk_handles(store, &aa, asorted);
            let o = mk_handles(store, &ba, bsorted);
            if opname == "union" {
                h.union(&o);
            } else {
                h.intersection(&o);
            }
            let arr: Vec<usize> = h.iter().map(|x| x.as_usize()).collect();
            let flag = h.returns_sorted();
            // membership through the collection's own (possibly binary) search afterwards
            let members: Vec<bool> = (0..7).map(|i| h.contains(&AnnotationHandle::new(i))).collect();
            (arr, flag, members)
        });
        let want: BTreeSet<usize> = if opname == "union" { sa.union(&sb).copied().collect() } else { sa.intersection(&sb).copied().collect() };
        let fail = |sym: &str, detail: String| {
            rep.fail(
                &format!("handles|{}|self:{},other:{}|{}", opname, HVARIANTS[va], HVARIANTS[vb], sym),
                ord,
                || format!("Handles{:?}(sorted={}).{}(Handles{:?}(sorted={})): {}", aa, asorted, opname, ba, bsorted, detail),
                || json!({"oracle": "handles", "a": a, "va": va, "b": b, "vb": vb}),
            );
        };
        match r {
            Err(p) => fail(&format!("panic:{}", panic_class(&p)), p.clone()),
            Ok((arr, flag, members)) => {
                let got: BTreeSet<usize> = arr.iter().copied().collect();
                if got.len() != arr.len() {
                    fail("duplicates", format!("result {:?}", arr));
                }
                if got != want {
                    let sym = if got.is_subset(&want) { "items-missing" } else if want.is_subset(&got) { "items-extra" } else { "items-wrong" };
                    fail(sym, format!("result {:?}, set semantics {:?}", arr, want));
                }
                if flag && !arr.windows(2).all(|w| w[0] <= w[1]) {
                    fail("flagged-sorted-but-unsorted", format!("result {:?} with returns_sorted()=true", arr));
                }
                let order_ok = if opname == "union" {
                    flag || (arr.len() >= aa.len() && arr[..aa.len()] == aa[..])
                } else {
                    is_subsequence(&arr, &aa)
                };
                if !order_ok && got == want && got.len() == arr.len() {
                    fail("order-not-retained", format!("result {:?}", arr));
                }
                let want_members: Vec<bool> = (0..7).map(|i| got.contains(&i)).collect();
                if members != want_members {
                    fail("contains-after-operation-wrong", format!("result {:?} (sorted flag {}), contains(0..7) = {:?}", arr, flag, members));
                }
            }
        }
    }
    // contains on the receiver alone
    calls += 1;
    let r = catch(|| {
        let h = mk_handles(store, &aa, asorted);
        (0..7).map(|i| h.contains(&AnnotationHandle::new(i))).collect::<Vec<bool>>()
    });
    let want: Vec<bool> = (0..7).map(|i| sa.contains(&i)).collect();
    if r.as_ref().ok() != Some(&want) && vb == 0 && b.is_empty() {
        rep.fail(
            &format!("handles|contains|self:{}|wrong", HVARIANTS[va]),
            ord,
            || format!("Handles{:?}(sorted={}).contains(0..7) = {:?}, expected {:?}", aa, asorted, r, want),
            || json!({"oracle": "handles", "a": a, "va": va, "b": b, "vb": vb}),
        );
    }
    calls
}

fn subsequences(n: usize) -> Vec<Vec<usize>> {
    (0..(1usize << n)).map(|mask| (0..n).filter(|i| mask & (1 << i) != 0).collect()).collect()
}

fn run_handles(rep: &Reporter, store: &AnnotationStore) -> (u64, u64) {
    let subs = subsequences(6);
    let calls = AtomicU64::new(0);
    let cases = AtomicU64::new(0);
    (0..subs.len()).into_par_iter().for_each(|ia| {
        let mut c = 0;
        let mut k = 0;
        for ib in 0..subs.len() {
            for va in 0..3 {
                for vb in 0..3 {
                    let n = check_handles_case(rep, store, &subs[ia], va, &subs[ib], vb, ((subs[ia].len() + subs[ib].len()) * 100_000 + ia * 64 + ib) as u64);
                    if n > 0 {
                        k += 1;
                    }
                    c += n;
                }
            }
        }
        calls.fetch_add(c, Ordering::Relaxed);
        cases.fetch_add(k, Ordering::Relaxed);
    });
    (cases.load(Ordering::Relaxed), calls.load(Ordering::Relaxed))
}

/// every sequence of distinct handles of length <= 5 over {0..5}: the collection built by `Handles::from_iter` (the
/// constructor behind `to_handles()`, which decides the sorted flag itself) must answer membership, position, add,
/// sort and contains_subset like the plain sequence
fn run_handles_from_iter(rep: &Reporter, store: &AnnotationStore, only: Option<&[usize]>) -> u64 {
    fn perms(pool: &[usize], k: usize, cur: &mut Vec<usize>, out: &mut Vec<Vec<usize>>) {
        if cur.len() == k {
            out.push(cur.clone());
            return;
        }
        for x in pool {
            if !cur.contains(x) {
                cur.push(*x);
                perms(pool, k, cur, out);
                cur.pop();
            }
        }
    }
    let pool: Vec<usize> = (0..6).collect();
    let mut seqs: Vec<Vec<usize>> = Vec::new();
    for k in 0..=5 {
        perms(&pool, k, &mut Vec::new(), &mut seqs);
    }
    if let Some(o) = only {
        seqs.retain(|s| s.as_slice() == o);
    }
    let calls = AtomicU64::new(0);
    seqs.par_iter().enumerate().for_each(|(si, seq)| {
        let ascending = seq.windows(2).all(|w| w[0] <= w[1]);
        let order = if ascending { "ascending".to_string() } else { format!("order-type:{}", crate::util::order_type(&seq.iter().map(|x| *x as i64).collect::<Vec<_>>())) };
        let fail = |sym: &str, detail: String| {
            rep.fail(
                &format!("handles|from_iter|{}|{}", sym, if ascending { "ascending" } else { "not-ascending" }),
                (seq.len() * 100_000 + si) as u64,
                || format!("Handles::from_iter({:?}) [{}]: {}", seq, order, detail),
                || json!({"oracle": "handles-from-iter", "seq": seq}),
            );
        };
        let mk = || Handles::<Annotation>::from_iter(seq.iter().map(|i| AnnotationHandle::new(*i)), store);
        let r = catch(|| {
            let h = mk();
            let flag = h.returns_sorted();
            let members: Vec<bool> = (0..7).map(|i| h.contains(&AnnotationHandle::new(i))).collect();
            let positions: Vec<Option<usize>> = (0..7).map(|i| h.position(&AnnotationHandle::new(i))).collect();
            let arr: Vec<usize> = h.iter().map(|x| x.as_usize()).collect();
            // add every candidate to a fresh copy
            let adds: Vec<Vec<usize>> = (0..7)
                .map(|i| {
                    let mut h2 = mk();
                    h2.add(AnnotationHandle::new(i));
                    h2.iter().map(|x| x.as_usize()).collect()
                })
                .collect();
            let mut h3 = mk();
            h3.sort();
            let sorted_arr: Vec<usize> = h3.iter().map(|x| x.as_usize()).collect();
            // every pair of members as a subset
            let mut subset_ok = true;
            for a in seq {
                for b in seq {
                    let sub = Handles::<Annotation>::from_iter([*b, *a].iter().map(|i| AnnotationHandle::new(*i)), store);
                    subset_ok &= h.contains_subset(&sub);
                }
            }
            (flag, members, positions, arr, adds, sorted_arr, subset_ok)
        });
        calls.fetch_add(1, Ordering::Relaxed);
        match r {
            Err(p) => fail(&format!("panic:{}", panic_class(&p)), p.clone()),
            Ok((flag, members, positions, arr, adds, sorted_arr, subset_ok)) => {
                if arr != *seq {
                    fail("order-changed", format!("iterates as {:?}", arr));
                }
                if flag && !ascending {
                    fail("flagged-sorted-but-unsorted", "returns_sorted() = true".into());
                }
                let want_members: Vec<bool> = (0..7).map(|i| seq.contains(&i)).collect();
                if members != want_members {
                    fail("contains-wrong", format!("contains(0..7) = {:?}", members));
                }
                let want_pos: Vec<Option<usize>> = (0..7).map(|i| seq.iter().position(|x| *x == i)).collect();
                if positions != want_pos {
                    fail("position-wrong", format!("position(0..7) = {:?}, expected {:?}", positions, want_pos));
                }
                for (i, after) in adds.iter().enumerate() {
                    let mut want: BTreeSet<usize> = seq.iter().copied().collect();
                    want.insert(i);
                    let got: BTreeSet<usize> = after.iter().copied().collect();
                    if got != want || got.len() != after.len() {
                        fail("add-wrong", format!("after add({}) the collection is {:?}", i, after));
                        break;
                    }
                }
                let mut want_sorted = seq.clone();
                want_sorted.sort();
                if sorted_arr != want_sorted {
                    fail("sort-wrong", format!("after sort() the collection is {:?}", sorted_arr));
                }
                if !subset_ok {
                    fail("contains_subset-wrong", "a pair of its own members is not a subset".into());
                }
            }
        }
    });
    calls.load(Ordering::Relaxed)
}

fn lim_class(x: isize, n: usize) -> String {
    if x == 0 {
        "zero".into()
    } else {
        format!("{}{}", sign(x), if x.unsigned_abs() > n { "(beyond-length)" } else { "" })
    }
}

fn check_limititer_case(rep: &Reporter, n: usize, b: isize, e: isize) {
    let (lo, hi) = pyslice(n, b, e);
    let want: Vec<usize> = (lo..hi).collect();
    let got = limititer_indices(n, b, e);
    let sym = match &got {
        Err(p) => format!("panic:{}", p),
        Ok(g) if *g == want => return,
        Ok(g) => {
            if g.len() >= 64 {
                "nonterminating".to_string()
            } else if g.len() < want.len() {
                "too-few".to_string()
            } else if g.len() > want.len() {
                "too-many".to_string()
            } else {
                "wrong-items".to_string()
            }
        }
    };
    rep.fail(
        &format!("limititer|begin:{},end:{}|{}", lim_class(b, n), lim_class(e, n), sym),
        (n * 1000) as u64 + (b.unsigned_abs() * 20 + e.unsigned_abs()) as u64,
        || format!("(0..{}).limit({}, {}) = {:?} but [{}:{}] of 0..{} is {:?}", n, b, e, got, b, if e == 0 { String::new() } else { e.to_string() }, n, want),
        || json!({"oracle": "limititer", "n": n, "b": b, "e": e}),
    );
}

// =====================================================================================================
// run
// =====================================================================================================

struct Prepared {
    scs: Vec<SCtx>,
    cells: Vec<Vec<Cell>>,
    sup: Support,
}

fn prepare(extra: Option<SCtx>) -> Prepared {
    let mut scs = all_sctx();
    if let Some(mut e) = extra {
        e.idx = scs.len();
        scs.push(e);
    }
    let cells: Vec<Vec<Cell>> = scs.par_iter().map(|sc| RTS.iter().map(|rt| compute_cell(sc, *rt)).collect()).collect();
    // the support table is computed from the fixed stores only, so that replay sees the same table as the run
    let nfixed = store_histories().len();
    let sup = compute_support(&cells[..nfixed.min(cells.len())]);
    Prepared { scs, cells, sup }
}

fn plain_constraints(cells: &[Cell], sup: &Support) -> BTreeMap<Rt, Cs> {
    let mut m = BTreeMap::new();
    for cell in cells {
        if let Some(s) = cell.singles.iter().find(|s| !s.missing && !matches!(s.c, Cs::Id(_)) && !s.p.rows.is_empty() && is_clean(sup, cell.rt, s)) {
            m.insert(cell.rt, s.c.clone());
        }
    }
    m
}

fn qlen(q: &Qs) -> u64 {
    format!("{:?}", q).len() as u64
}

pub fn run(rep: &Reporter) -> Coverage {
    let tier = rep.tier;
    let cn = Counts::default();
    EVALS.store(0, Ordering::Relaxed);
    let prep = prepare(None);
    let (scs, cells, sup) = (&prep.scs, &prep.cells, &prep.sup);
    let mut space = serde_json::Map::new();
    let mut samples: Vec<Value> = Vec::new();

    // ---- helper collections
    let (hcases, hcalls) = run_handles(rep, &scs[0].store);
    let hfi = run_handles_from_iter(rep, &scs[0].store, None);
    let mut lcases = 0u64;
    for n in 0..=7usize {
        for b in -8..=8isize {
            for e in -8..=8isize {
                check_limititer_case(rep, n, b, e);
                lcases += 1;
            }
        }
    }
    space.insert("handles".into(), json!("Handles<Annotation>::union / intersection / contains on all ordered pairs of the 64 sub-sequences of 0..6, each operand as ascending+sorted flag, ascending+unsorted flag, descending+unsorted flag"));
    space.insert("limititer".into(), json!("(0..n).limit(b,e) for n in 0..=7, b,e in -8..=8"));
    space.insert("handles_from_iter".into(), json!(format!("Handles::from_iter on every sequence of <= 5 distinct handles over 0..6 ({} sequences): sorted flag, contains, position, add, sort, contains_subset against the plain sequence", hfi)));

    // ---- o1 singles + o6 + o5 on single constraints
    let tasks: Vec<(usize, usize)> = (0..scs.len()).flat_map(|s| (0..RTS.len()).map(move |r| (s, r))).collect();
    tasks.par_iter().for_each(|(si, ri)| {
        let (sc, cell) = (&scs[*si], &cells[*si][*ri]);
        let rt = cell.rt;
        if cell.universe.is_panic() {
            let f = cell.universe.fail.clone().unwrap_or_default();
            rep.fail(&format!("o1|{}|none|primary|{}", rt.kw(), f), 0, || format!("store {}: SELECT {} without constraints: {}", sc.name, rt.kw(), f), || case_json("o5-text", sc, &Qs::flat(rt, vec![]), json!({})));
        }
        let u = Qs::flat(rt, vec![]);
        check_o6_universe(rep, sc, cell, &cn);
        check_o5_text(rep, sc, &u, None, &cn, 0);
        check_o5_iter(rep, sc, rt, &[], None, true, &cn, 0);
        for (i, s) in cell.singles.iter().enumerate() {
            let ord = (1000 + i * 20 + *si) as u64;
            check_o1_single(rep, sc, rt, s, sup, &cn, ord);
            check_o6(rep, sc, rt, s, sup, &cn, ord);
            let q = q_primary(rt, &s.c);
            check_o5_text(rep, sc, &q, None, &cn, ord);
            let cons = [s.c.clone()];
            let (sp, ss) = sup_of(sup, rt, &s.c);
            check_o5_iter(rep, sc, rt, &cons, if is_clean(sup, rt, s) { None } else { Some(&s.s) }, sp && ss, &cn, ord);
        }
        // single-argument LIMIT forms of the text syntax
        for n in -3..=3isize {
            let q = Qs::flat(rt, vec![if n >= 0 { Cs::Limit(0, n) } else { Cs::Limit(n, 0) }]);
            check_o5_text(rep, sc, &q, Some(format!("SELECT {} WHERE LIMIT {};", rt.kw(), n)), &cn, 500);
        }
    });
    let nsingles: usize = cells.iter().flat_map(|c| c.iter()).map(|c| c.singles.len()).sum();
    space.insert("stores".into(), json!(scs.iter().map(|s| format!("{} ({} annotations)", s.name, s.fwd.len())).collect::<Vec<_>>()));
    space.insert("single_constraints".into(), json!(nsingles));
    if let Some(s) = cells[0][0].singles.get(5) {
        samples.push(case_json("o1-single", &scs[0], &q_primary(Rt::Annotation, &s.c), json!({})));
    }

    // ---- o1 pairs (+ triples), o5 on pairs
    let failed_pairs: Mutex<BTreeSet<(String, String)>> = Mutex::new(BTreeSet::new());
    let npairs = AtomicU64::new(0);
    let ntriples = AtomicU64::new(0);
    tasks.par_iter().for_each(|(si, ri)| {
        let (sc, cell) = (&scs[*si], &cells[*si][*ri]);
        let rt = cell.rt;
        let clean: Vec<&Single> = cell.singles.iter().filter(|s| is_clean(sup, rt, s)).collect();
        for i in 0..clean.len() {
            for j in (i + 1)..clean.len() {
                let ord = (10_000 + (i + j) * 50 + *si) as u64;
                check_o1_combo(rep, sc, rt, &[clean[i], clean[j]], &cn, ord, Some(&failed_pairs));
                npairs.fetch_add(1, Ordering::Relaxed);
            }
        }
        let red: Vec<&Single> = reduced(cell).into_iter().filter(|s| is_clean(sup, rt, s)).collect();
        for i in 0..red.len() {
            for j in 0..red.len() {
                if i == j {
                    continue;
                }
                let cons = vec![red[i].c.clone(), red[j].c.clone()];
                let ord = (10_000 + (i + j) * 50 + *si) as u64;
                check_o5_iter(rep, sc, rt, &cons, None, true, &cn, ord);
                if tier == Tier::Thorough || (i + j) % 4 == 0 {
                    check_o5_text(rep, sc, &Qs::flat(rt, cons), None, &cn, ord);
                }
            }
        }
    });
    if tier == Tier::Thorough {
        let fp = failed_pairs.lock().unwrap().clone();
        tasks.par_iter().for_each(|(si, ri)| {
            let (sc, cell) = (&scs[*si], &cells[*si][*ri]);
            let rt = cell.rt;
            let red: Vec<&Single> = cell.singles.iter().filter(|s| is_clean(sup, rt, s) && !s.missing).collect();
            let pair_bad = |a: &Single, b: &Single| fp.contains(&(a.fine.clone(), b.fine.clone())) || fp.contains(&(b.fine.clone(), a.fine.clone()));
            for i in 0..red.len() {
                for j in (i + 1)..red.len() {
                    for k in (j + 1)..red.len() {
                        if pair_bad(red[i], red[j]) || pair_bad(red[i], red[k]) || pair_bad(red[j], red[k]) {
                            cn.skipped_attributed.fetch_add(1, Ordering::Relaxed);
                            continue;
                        }
                        check_o1_combo(rep, sc, rt, &[red[i], red[j], red[k]], &cn, (100_000 + (i + j + k) * 50 + *si) as u64, None);
                        ntriples.fetch_add(1, Ordering::Relaxed);
                    }
                }
            }
        });
    }
    space.insert("constraint_pairs_both_orders".into(), json!(npairs.load(Ordering::Relaxed)));
    space.insert("constraint_triples_all_six_orders".into(), json!(ntriples.load(Ordering::Relaxed)));

    // ---- o2 unions
    // which positions unions work in is always determined on the reduced menu (the same in both tiers)
    let (mut urecs, usup) = compute_unions(scs, cells, sup, scs.len(), false);
    let full_unions = tier == Tier::Thorough;
    if full_unions {
        urecs = compute_unions(scs, cells, sup, scs.len(), true).0;
    }
    urecs.par_iter().for_each(|r| {
        let (sc, cell) = (&scs[r.si], &cells[r.si][r.ri]);
        let red = menu(cell, full_unions);
        report_o2(rep, sc, cell.rt, red[r.i], red[r.j], &r.results, sup, &usup, &cn, (20_000 + (r.i + r.j) * 50 + r.si) as u64);
        // the text spelling of a union
        if (r.i + r.j) % 7 == 0 {
            check_o5_text(rep, sc, &q_primary(cell.rt, &Cs::Union(vec![red[r.i].c.clone(), red[r.j].c.clone()])), None, &cn, 20_000);
        }
    });
    space.insert("unions_of_two_branches_primary_and_secondary".into(), json!(urecs.len()));
    space.insert("union_support".into(), json!(usup.iter().filter(|(k, _)| !k.1.ends_with("panics")).map(|((rt, pos), v)| format!("{}/{}: {}", rt.kw(), pos, v)).collect::<Vec<_>>()));

    // ---- o3 limits
    let lim: isize = tier.pick(3, 7);
    let nlimits = AtomicU64::new(0);
    tasks.par_iter().for_each(|(si, ri)| {
        let (sc, cell) = (&scs[*si], &cells[*si][*ri]);
        let rt = cell.rt;
        let mut bases: Vec<(Vec<Cs>, &Out)> = vec![(vec![], &cell.universe)];
        for s in menu(cell, tier == Tier::Thorough) {
            if is_clean(sup, rt, s) && !s.missing {
                bases.push((vec![s.c.clone()], &s.p));
            }
        }
        for (base, out) in &bases {
            if out.fail.is_some() {
                continue;
            }
            for b in -lim..=lim {
                for e in -lim..=lim {
                    check_o3(rep, sc, rt, base, out, b, e, &cn, (30_000 + base.len() * 1000 + (b.unsigned_abs() + e.unsigned_abs()) * 10 + *si) as u64);
                    nlimits.fetch_add(1, Ordering::Relaxed);
                }
            }
        }
    });
    space.insert("limit_queries".into(), json!({"count": nlimits.load(Ordering::Relaxed), "begin_end_range": [-lim, lim]}));

    // ---- o4 sub-queries (and their text spelling)
    let ops1: Vec<&str> = match tier {
        Tier::Quick => vec!["EMBEDS", "OVERLAPS", "PRECEDES", "BEFORE", "EQUALS"],
        Tier::Thorough => REL_OPS.to_vec(),
    };
    let ops2: Vec<&str> = match tier {
        Tier::Quick => vec!["EMBEDS", "PRECEDES"],
        Tier::Thorough => REL_OPS.to_vec(),
    };
    let ntemplates = AtomicU64::new(0);
    let per_store_templates: Vec<Vec<Qs>> = (0..scs.len())
        .map(|si| {
            let mut t = templates_depth1(&ops1, &plain_constraints(&cells[si], sup));
            if !ops2.is_empty() {
                t.extend(templates_depth2(&ops2));
            }
            t
        })
        .collect();
    // pass A: templates without OPTIONAL; remember which templates yield rows somewhere
    let supported: Mutex<BTreeSet<String>> = Mutex::new(BTreeSet::new());
    (0..scs.len()).into_par_iter().for_each(|si| {
        let sc = &scs[si];
        per_store_templates[si].par_iter().filter(|q| !has_optional(q)).for_each(|q| {
            ntemplates.fetch_add(1, Ordering::Relaxed);
            if check_o4(rep, sc, q, &cn, 40_000 + qlen(q) * 20 + si as u64, true) {
                supported.lock().unwrap().insert(format!("{:?}", q));
                check_o5_text(rep, sc, q, None, &cn, 40_000 + qlen(q) * 20 + si as u64);
            }
        });
    });
    // pass B: OPTIONAL variants of the templates that are valid queries (yield rows on some store)
    let supported = supported.into_inner().unwrap();
    (0..scs.len()).into_par_iter().for_each(|si| {
        let sc = &scs[si];
        per_store_templates[si].par_iter().filter(|q| has_optional(q)).for_each(|q| {
            if !supported.contains(&format!("{:?}", strip_optional(q))) {
                cn.skipped_unsupported.fetch_add(1, Ordering::Relaxed);
                return;
            }
            ntemplates.fetch_add(1, Ordering::Relaxed);
            check_o4(rep, sc, q, &cn, 45_000 + qlen(q) * 20 + si as u64, true);
            check_o5_text(rep, sc, q, None, &cn, 45_000 + qlen(q) * 20 + si as u64);
        });
        // sibling sub-queries: no documented row semantics, spelling only
        let sib = Qs::named(Rt::Annotation, "x", vec![])
            .with_sub(Qs::named(Rt::Text, "y", vec![Cs::Rel { var: "x".into(), op: "EMBEDS".into() }]))
            .with_sub(Qs::named(Rt::Data, "z", vec![Cs::AnnVar { var: "x".into(), meta: false, rec: false }]));
        check_o5_text(rep, sc, &sib, None, &cn, 49_000);
    });
    space.insert("subquery_templates_evaluated".into(), json!({"count": ntemplates.load(Ordering::Relaxed), "relation_operators_depth1": ops1, "relation_operators_depth2": ops2, "templates_that_yield_rows": supported.len()}));
    if let Some(q) = per_store_templates[0].first() {
        samples.push(case_json("o4", &scs[0], q, json!({})));
    }

    // ---- o7 ADD / DELETE
    let nmut = AtomicU64::new(0);
    (0..scs.len()).into_par_iter().for_each(|si| {
        let sc = &scs[si];
        for (i, c) in add_cases(sc).iter().enumerate() {
            check_o7_add(rep, sc, c, &cn, (50_000 + i * 20 + si) as u64);
            nmut.fetch_add(1, Ordering::Relaxed);
        }
        for (i, c) in del_cases(sc).iter().enumerate() {
            check_o7_del(rep, sc, c, &cn, (55_000 + i * 20 + si) as u64);
            nmut.fetch_add(1, Ordering::Relaxed);
        }
    });
    space.insert("add_delete_cases".into(), json!(nmut.load(Ordering::Relaxed)));
    if let Some(c) = add_cases(&scs[0]).first() {
        samples.push(json!({"oracle": "o7-add", "store": scs[0].name, "stamql": add_text(c)}));
    }
    samples.push(json!({"oracle": "limititer", "n": 6, "b": -4, "e": -1}));

    // support table (which constraint kinds work in which position), for the record
    let table: Vec<String> = sup.iter().map(|((rt, k), (p, s))| format!("{}/{}: primary={} secondary={}", rt.kw(), k, p, s)).collect();
    space.insert("support_table".into(), json!(table));
    space.insert("skipped_kind_never_yields_rows_for_result_type".into(), json!(cn.skipped_unsupported.load(Ordering::Relaxed)));
    space.insert("skipped_attributed_to_simpler_finding".into(), json!(cn.skipped_attributed.load(Ordering::Relaxed)));
    space.insert("text_forms_with_AS_qualifier_that_do_not_parse(C09)".into(), json!(cn.as_qualifier_unparseable.load(Ordering::Relaxed)));

    space.insert("text_spellings_parsed_and_compared".into(), json!(cn.text_compared.load(Ordering::Relaxed)));
    space.insert("iterator_spellings_compared".into(), json!(cn.iter_compared.load(Ordering::Relaxed)));
    if std::env::var("C08_PRINT_SPACE").is_ok() {
        eprintln!("C08-SPACE {}", serde_json::to_string(&space).unwrap_or_default());
    }
    let mut cov = Coverage::default();
    let cases = cn.cases.load(Ordering::Relaxed) + hcases + lcases;
    cov.states = cases;
    cov.transitions = EVALS.load(Ordering::Relaxed) + hcalls + lcases;
    cov.evaluations = cov.transitions;
    cov.traces_validated = cases;
    cov.distinct_nontrivial = cn.nontrivial.load(Ordering::Relaxed) + hcases;
    cov.rule = "states = (store, query, oracle) cases plus helper-collection cases; transitions = query evaluations / query_mut / direct mutation calls / helper calls on the real library; a case is non-trivial when the expected result is non-empty (o1 singles: either position yields rows; o2: both branches non-empty and different; o3: >1 base rows and a real limit; o7: at least one equivalent direct call)".into();
    cov.samples = samples;
    cov.exhaustive = true;
    cov.extra.insert("space".into(), Value::Object(space));
    cov.assumptions = vec![
        "LIMIT begin end is read as documented on LimitIter ('end=0 means until the end, negative numbers are relative to the end, end is non-inclusive') and by the suite (LIMIT 1 = first, LIMIT -1 = last, LIMIT 0 1 = first): the Python slice [begin : end or None] of the unlimited rows; `LIMIT 0 0` therefore selects everything and is used as the neutral first constraint that puts another constraint in secondary position; LIMIT is only compared when written last".into(),
        "QueryIter swallows evaluation errors, so 'constraint kind not implemented for this result type / position' is only visible as an empty result; a kind that never yields a row for a result type in either position on any store is treated as not applicable, a kind that yields rows in one position only is reported as order dependence".into(),
        "pairs / triples / unions / limits / iterator spellings are only compared for constraints whose primary and secondary implementation agree on that store; disagreements are reported once, on the single constraint (o1), and mask further findings involving that constraint".into(),
        "the reference meaning (o6) is two-sided: items the documentation certainly includes / certainly excludes; annotations that reach text, resources or datasets only through other annotations, string-vs-number comparisons and multi-selection text are left undecided".into(),
        "OPTIONAL sub-query templates are only evaluated when the same template without OPTIONAL yields rows on some store (otherwise the inner query is an invalid query and the documentation does not say what OPTIONAL means); an optional middle level with a mandatory innermost level and sibling sub-queries are used for the spelling oracle only".into(),
        "`AS METADATA` / `AS NOCASE` / `AS REGEX` text forms do not parse at all (C09); those constraints are exercised programmatically and their text form is compared only once it parses".into(),
        "ADD is compared with AnnotationStore::annotate (one call per row of the sub-select, in row order), DELETE with remove_annotation / remove_resource / remove_dataset / remove_key(strict) / remove_data(strict); equality of the complete internal dump (verif_dump)".into(),
        "empty text needles are excluded (non-terminating search, C07)".into(),
    ];
    cov
}

// =====================================================================================================
// replay
// =====================================================================================================

fn single_for(sc: &SCtx, rt: Rt, c: &Cs) -> Single {
    let p = eval_qs(&sc.store, &q_primary(rt, c));
    let s = eval_qs(&sc.store, &q_secondary(rt, c));
    Single { coarse: coarse(c), fine: fine(c, &sc.model, rt), missing: missing_ref(c, &sc.model, rt), c: c.clone(), p, s }
}

pub fn replay(rep: &Reporter, case: &Value) {
    let oracle = case["oracle"].as_str().unwrap_or("").to_string();
    println!("replay C08: oracle={}", oracle);
    let cn = Counts::default();
    match oracle.as_str() {
        "limititer" => {
            let (n, b, e) = (case["n"].as_u64().unwrap_or(0) as usize, case["b"].as_i64().unwrap_or(0) as isize, case["e"].as_i64().unwrap_or(0) as isize);
            let (lo, hi) = pyslice(n, b, e);
            println!("  (0..{}).limit({},{}) = {:?}; Python slice = {:?}", n, b, e, limititer_indices(n, b, e), (lo..hi).collect::<Vec<_>>());
            check_limititer_case(rep, n, b, e);
            return;
        }
        "handles-from-iter" => {
            let seq: Vec<usize> = case["seq"].as_array().map(|a| a.iter().filter_map(|x| x.as_u64().map(|x| x as usize)).collect()).unwrap_or_default();
            let scs = all_sctx();
            println!("  Handles::from_iter({:?})", seq);
            run_handles_from_iter(rep, &scs[0].store, Some(&seq));
            return;
        }
        "handles" => {
            let arr = |v: &Value| -> Vec<usize> { v.as_array().map(|a| a.iter().filter_map(|x| x.as_u64().map(|x| x as usize)).collect()).unwrap_or_default() };
            let scs = all_sctx();
            let (a, b) = (arr(&case["a"]), arr(&case["b"]));
            let (va, vb) = (case["va"].as_u64().unwrap_or(0) as usize, case["vb"].as_u64().unwrap_or(0) as usize);
            println!("  self={:?} ({}) other={:?} ({})", a, HVARIANTS[va.min(2)], b, HVARIANTS[vb.min(2)]);
            check_handles_case(rep, &scs[0].store, &a, va.min(2), &b, vb.min(2), 0);
            return;
        }
        _ => {}
    }
    let hist: Vec<Op> = match serde_json::from_value(case["history"].clone()) {
        Ok(h) => h,
        Err(e) => {
            println!("  cannot read the store history from the replay file: {}", e);
            return;
        }
    };
    let name = case["store"].as_str().unwrap_or("replayed").to_string();
    let sc = match build_sctx(0, &name, &hist) {
        Ok(sc) => sc,
        Err(e) => {
            println!("  cannot rebuild the store: {}", e);
            return;
        }
    };
    println!("  store {}: {}", sc.name, sc.hist.iter().map(|o| o.short()).collect::<Vec<_>>().join("; "));
    match oracle.as_str() {
        "o7-add" => {
            if let Ok(c) = serde_json::from_value::<AddCase>(case["add"].clone()) {
                println!("  {}", add_text(&c).unwrap_or_default());
                check_o7_add(rep, &sc, &c, &cn, 0);
            }
            return;
        }
        "o7-del" => {
            if let Ok(c) = serde_json::from_value::<DelCase>(case["del"].clone()) {
                println!("  DELETE {} ?x {{ {} }} (as_text={})", c.sub.rt.kw(), text_q(&c.sub).unwrap_or_default(), c.as_text);
                check_o7_del(rep, &sc, &c, &cn, 0);
            }
            return;
        }
        _ => {}
    }
    let q: Qs = match serde_json::from_value(case["query"].clone()) {
        Ok(q) => q,
        Err(e) => {
            println!("  cannot read the query from the replay file: {}", e);
            return;
        }
    };
    println!("  query: {}", text_q(&q).unwrap_or_else(|| format!("{:?}", q)));
    println!("  programmatic result: {}", eval_qs(&sc.store, &q).show());
    let prep = prepare(None);
    let sup = &prep.sup;
    let rt = q.rt;
    match oracle.as_str() {
        "o1-single" | "o6" => {
            if let Some(c) = q.cons.last() {
                let s = single_for(&sc, rt, c);
                println!("  as primary constraint:   {}", s.p.show());
                println!("  as secondary constraint: {}", s.s.show());
                println!("  kind works as (primary, secondary) on some store: {:?}", sup_of(sup, rt, c));
                if let Some(r) = reference(&sc, rt, c) {
                    println!("  model: must contain {:?}, must be within {:?}", r.lower, r.upper);
                }
                check_o1_single(rep, &sc, rt, &s, sup, &cn, 0);
                check_o6(rep, &sc, rt, &s, sup, &cn, 0);
            }
        }
        "o1-combo" => {
            let singles: Vec<Single> = q.cons.iter().map(|c| single_for(&sc, rt, c)).collect();
            for s in &singles {
                println!("  {:?} alone: {}", s.c, s.p.show());
            }
            let refs: Vec<&Single> = singles.iter().collect();
            if refs.len() == 2 || refs.len() == 3 {
                check_o1_combo(rep, &sc, rt, &refs, &cn, 0, None);
            }
        }
        "o2" => {
            if let Some(Cs::Union(v)) = q.cons.last() {
                if v.len() == 2 {
                    let (a, b) = (single_for(&sc, rt, &v[0]), single_for(&sc, rt, &v[1]));
                    println!("  branch 1 alone: {}", a.p.show());
                    println!("  branch 2 alone: {}", b.p.show());
                    let (_, usup) = compute_unions(&prep.scs, &prep.cells, sup, prep.scs.len(), false);
                    let results = eval_o2(&sc, rt, &a, &b);
                    for (pos, _, o) in &results {
                        println!("  union as {} constraint: {}", pos, o.show());
                    }
                    report_o2(rep, &sc, rt, &a, &b, &results, sup, &usup, &cn, 0);
                }
            }
        }
        "o3" => {
            if let Some(Cs::Limit(b, e)) = q.cons.last() {
                let base: Vec<Cs> = q.cons[..q.cons.len() - 1].to_vec();
                let bq = Qs::flat(rt, base.clone());
                let bo = eval_qs(&sc.store, &bq);
                println!("  without LIMIT: {}", bo.show());
                let (lo, hi) = pyslice(bo.rows.len(), *b, *e);
                println!("  slice [{}:{}] of that: {:?}", b, if *e == 0 { String::new() } else { e.to_string() }, &bo.rows[lo..hi]);
                println!("  stand-alone (0..{}).limit({},{}) = {:?} (a deviation that LimitIter shows on its own is reported as limititer|..., not here)", bo.rows.len(), b, e, limititer_indices(bo.rows.len(), *b, *e));
                check_o3(rep, &sc, rt, &base, &bo, *b, *e, &cn, 0);
            }
        }
        "o6-universe" => {
            let cell = compute_cell(&sc, rt);
            check_o6_universe(rep, &sc, &cell, &cn);
        }
        "o4" => {
            let mut want = Vec::new();
            let r = catch(|| nested_ref(&sc.store, &q, &[], &[], &mut want));
            println!("  nested loops: {:?} ({:?})", want, r.map(|x| x.is_ok()));
            check_o4(rep, &sc, &q, &cn, 0, true);
        }
        "o5-text" => {
            let text = case["extra"]["text"].as_str().map(|s| s.to_string());
            if let Some(t) = &text {
                println!("  STAMQL: {:?} -> {:?}", t, eval_text(&sc.store, t).map(|o| o.show()));
            }
            check_o5_text(rep, &sc, &q, text, &cn, 0);
        }
        "o5-iter" => {
            println!("  iterator spelling: {:?}", catch(|| iter_spelling(&sc.store, rt, &q.cons)));
            if q.cons.len() == 1 {
                let s = single_for(&sc, rt, &q.cons[0]);
                let (sp, ss) = sup_of(sup, rt, &s.c);
                check_o5_iter(rep, &sc, rt, &q.cons, if is_clean(sup, rt, &s) { None } else { Some(&s.s) }, sp && ss, &cn, 0);
            } else {
                check_o5_iter(rep, &sc, rt, &q.cons, None, true, &cn, 0);
            }
        }
        other => println!("  unknown oracle {:?}", other),
    }
}
