#!/usr/bin/env python3
"""Regenerates /verif/MANIFEST.json from the table below (kept in one place so that it is always valid)."""
import json, subprocess
BASE = json.load(open('/root/.vp/BASELINE.json'))
hooks_commits = subprocess.run(['git','-C','/repo','log','--format=%h %s'],capture_output=True,text=True).stdout.splitlines()
hook_shas = [l.split()[0] for l in hooks_commits if l.split(' ',1)[1].startswith('verif hooks')]

# property id -> (engine, technique, level text, level note, design_ref)
CHECKS = {
 'C08': ('query', 'bounded-exhaustive enumeration of query programs (constraint menu derived from each store, ordered pairs/triples, unions, limits, sub-query templates, three spellings, ADD/DELETE) x 14 small stores, differential and reference oracles; exhaustive check of Handles set operations and LimitIter',
         'On 14 stores (<= 6 annotations, all selector families, two resources/datasets) every constraint of a ~55-entry per-store menu for each of the six result types is evaluated as primary and as secondary constraint and compared; constraint lists of length 2 (quick) / 3 (thorough) in every order; unions of two branches against set union; LIMIT b e against the slice of the unlimited result; sub-queries against nested iteration (OPTIONAL included); STAMQL text vs programmatic Query vs iterator API; unambiguous constraints against the reference model; ADD/DELETE against the direct calls (dump equality); Handles::union/intersection/contains on all pairs of sub-sequences of 0..6 and LimitIter for n <= 7, b,e in -8..8.',
         'Bounded stores and menus; LIMIT read as Python slice; a constraint kind empty in both positions on every store is treated as not applicable; findings on a constraint mask further comparisons involving it.', 'DESIGN.md section 4 C08'),
 'C19': ('mutload', 'exhaustive 1-deviation (quick) / 2-deviation (thorough, small seeds) mutation space of seed documents produced by the library itself, each loaded by the real loader in an isolated worker process with allocation cap and wall-clock limit',
         'Seeds (STAM JSON stores for each selector family with gaps and temporary ids, annotation arrays, dataset files, STAM CSV files, CBOR files, hand-written cyclic/dangling @include stores) are mutated at every position with every operator (JSON tree: delete / duplicate / swap / retype to 14 values / @type rename / reference redirection / selector wrapping; CSV: every cell to 15 values, row and column operations; CBOR: every truncation, bit flip and 5 byte values); the loader must return Err or a store that passes the C01-C03 consistency checks, never panic, abort, exceed the allocation cap or the time limit; all strings of length <= 3 go through the small string parsers.',
         'Time proportionality approximated by a 5 s limit; memory by a 1 GiB / 256 MiB-per-request cap; bounded seed set.', 'DESIGN.md section 4 C19'),
 'C06': ('enum', 'bounded-exhaustive enumeration of texts x sets of known selections (dense: all ranges; sparse: reference+candidate) x every reference (range, 2-element set, annotation) x 82 operator variants, against the relation test applied to every known selection',
         'For every prefix (length 0..10 quick / 0..12 thorough) of a text with whitespace runs, plus a long-gap and a multi-byte text: on a resource where all (L+1)(L+2)/2 ranges are known selections and on sparse resources, every reference selection, ordered pair as set, and annotation, through all five related_text entry points: the result must be exactly the known selections for which reference.test(op, candidate) holds, each once, in textual order.',
         'Bounded text length; the relation test itself is the oracle (C13 decides its correctness); InSet/SameRange/Equals{all} not included.', 'DESIGN.md section 4 C06'),
 'C09': ('query', 'bounded-exhaustive enumeration of token sequences (48-token alphabet x 7 grammar contexts x 3 joiners) and of all prefixes / single edits of 56 seed queries for totality; 5931 grammar-derived and 278 programmatic queries for the print/parse fixpoint',
         'Every Query::parse call runs under a panic catcher: any panic is a violation. For every query that parses (or is built programmatically and prints): print -> parse succeeds, the structure (type, name, qualifier, constraint tree, sub-queries, assignments) is equal, printing again gives the same text, and results on small stores are equal.',
         'Bounded sequence length (4 quick / 5 thorough); arbitrary Unicode only through two non-ASCII tokens; hangs not watchdogged.', 'DESIGN.md section 4 C09'),
 'C12': ('enum', 'bounded-exhaustive enumeration of texts x positions/bytes x receivers x milestone intervals x shrink_to_fit x sets of prior annotations against naive char counting; differential battery and history replay across configurations',
         'utf8byte / utf8byte_to_charpos for every position and byte (also beyond the end and inside characters) on resources and every sub-selection, for milestone intervals 0,1,2,3,7,100, shrink_to_fit on/off and every set of <= 2 prior annotations: equal to char_indices counting, round trip identity, Err outside the domain; a battery of 15 observation kinds and the states of the history exploration give identical results under all 24 configurations.',
         'Layered bounds (alphabet x length x annotations) stated in the evidence; differential part cannot see errors common to all configurations.', 'DESIGN.md section 4 C12'),
 'C20': ('sched', 'stateless exploration of thread schedules of the real code under a controlled baton scheduler (yield points H2 before every lock operation), DFS with CHESS-style preemption bounding',
         'For three store kinds (inline, stand-off members, stand-off with changed dataset) and every multiset of 2 (quick) / 2-3 (thorough) reader bodies out of five (store / dataset / second dataset / resource serialisation, query + parallel iteration): every schedule with at most 2 (quick) / 3 (thorough) preemptions is executed with real threads; each thread must return what it returns alone, and a store serialisation afterwards must equal the sequential one; deadlock and schedule divergence are detected.',
         'Sequentially consistent interleavings at lock operations only (no weak memory, no data-race detection); save() racing on files not covered.', 'DESIGN.md section 4 C20'),
 'C04': ('enum', 'bounded-exhaustive enumeration of texts x nesting chains x all ordered pairs of cursors through every offset entry point, against the plain-string slice and the acceptance rule of the statement',
         'For every text (empty, 1-4 byte codepoints), every chain of parent ranges up to nesting depth 1 (quick) / 3 (thorough) and every ordered pair of cursors of both alignments (in range, at the ends, beyond, positive end-aligned, extreme values): annotate with a TextSelector / relative AnnotationSelector, FindText::textselection and text_by_offset on resources and sub-selections accept exactly when 0 <= begin <= end <= length and then select exactly those codepoints; every reported offset in all four modes is well-formed and re-resolves to the same range.',
         'Bounded text length (<= 8 codepoints) and nesting depth.', 'DESIGN.md section 4 C04'),
 'C07': ('enum', 'bounded-exhaustive enumeration of all texts up to a length over a 7-letter alphabet x all sub-ranges x needles / delimiters / trim sets / regular expressions, against std string functions and the regex crate',
         'All texts of length <= 4 (quick) / <= 5 (thorough) over 1-4 byte codepoints incl. characters whose lower-casing changes byte length, every sub-selection as scope through three receivers, 59 needles/delimiters, 8 trim sets, sequences, 16 regular expressions alone and in pairs/triples with and without overlap, store-level searches, and segmentation for every set of <= 3/4 known selections: results must equal the plain-string operation at the right absolute offsets, ordered, confined to the scope; partitions must be consecutive and covering.',
         'Bounded text length and menus; empty needle: termination only; multi-expression non-overlap checked property-wise (tie-breaking unspecified).', 'DESIGN.md section 4 C07'),
 'C16': ('enum', 'bounded-exhaustive enumeration of transposition worlds (fragment sets x orders x gaps x 2-3 sides, simple/complex) x every source range / pair of ranges x configurations, against interval arithmetic on the fragment lists',
         'Every world of 1-3 disjoint fragments over a 5-6 codepoint base text, every listing and positional order, 2 or 3 sides, simple and complex; every source range (and ordered pair) on every side in five source forms and the TransposeConfig switches: on Ok the builders are added, the result lies in the other resource, texts are equal piece by piece, sides have equal text, transposing back returns the original offsets; an uncovered source must be rejected with the store unchanged, a covered one accepted.',
         'Bounded sizes; sides in distinct resources; zero-width sources: acceptance unspecified.', 'DESIGN.md section 4 C16'),
 'C17': ('enum', 'bounded-exhaustive enumeration of annotation shapes x values x identifiers x export configurations (plus every annotation of every history state), each export parsed with serde_json and compared structurally',
         'Every selector kind and complex combination up to a bound, every DataValue type incl. nested lists, datetimes, non-finite floats and all awkward strings (also IRI-prefixed) as value / annotation id / resource id / dataset id / key id, W3C-namespace keys, and every live annotation of every state of the history exploration, under six export configurations: the output must parse as one JSON object whose targets name the same resources and offsets in order and whose body members have the same content and JSON type.',
         'Bounded menus; IRI transformation of identifiers with special characters is taken from the public IRI::iri(); generated ids/timestamps switched off.', 'DESIGN.md section 4 C17'),
 'C10': ('hist', 'bounded-exhaustive enumeration (values x operators x keys x sets x removal scenarios; all ordered pairs of insertions) plus explicit-state exploration of histories with a search-vs-scan oracle in every state',
         'Every search entry point (store.find_data, dataset.find_data, key.data().filter_value, test_data, key.data(), data_by_value) is compared with a full scan for every dataset, key (known/unknown/any) and operator of an 81-operator menu on five fixed stores holding 18 values of all seven types (after key/data removals) and in every state of the history exploration; DataValue::test is compared with a transcription of the operator documentation and the Not/And/Or laws; every ordered pair of id-less insertions must share equal values and keep the key unique.',
         'Bounded menus and depth. Cross-type comparisons are undocumented and only checked differentially.', 'DESIGN.md section 4 C10'),
 'C18': ('hist', 'explicit-state exploration of histories; per state and protection mode: protect, validate, reload, then the exhaustive set of single-codepoint edits of every resource text, reload and validate',
         'In every distinct state with annotations reached by the history exploration (depth 3 quick / 4 thorough, plus an exploration from a 45-codepoint resource for the checksum branch of Auto) and for each of the four modes: protect_text succeeds, every annotation that selects text validates before and after a JSON round trip, and for every single-codepoint substitution / insertion / deletion of every resource text the reloaded store reports Some(false) exactly for the annotations whose selected characters changed.',
         'Bounded depth/alphabet; edits are single-codepoint; edits that push an offset out of range make the store unloadable and are skipped.', 'DESIGN.md section 4 C18'),
 'C11': ('hist', 'explicit-state exploration of histories; every distinct state is saved as CBOR and loaded again; complete internal dump (H1) and public observation compared',
         'Every distinct store state of the history exploration (incl. gaps after removals) is saved with to_file(*.cbor) and loaded with shrink_to_fit off and on; the complete internal dump (all vectors, id maps, every reverse-index entry, position indices), the abstract content, the reverse-lookup self-consistency, index sizes and a battery of queries must be identical; plus a value sweep over all DataValue types incl. NaN/infinity and sub-second datetimes.',
         'Bounded depth and alphabet. protect_text states are covered by C18.', 'DESIGN.md section 4 C11'),
 'C15': ('hist', 'explicit-state exploration of histories; every distinct state is saved as STAM CSV and loaded again; abstract content compared with values as text and offsets as absolute ranges',
         'Every distinct store state of the history exploration (depth 3 quick / 4 thorough) is written with to_file(*.store.stam.csv) and read back; resources, keys, data ids and value text, annotation order, ids, target kinds, referenced items, absolute ranges of all offsets and data references must be identical (value types and alignment are outside the claim); plus the value sweep.',
         'Bounded depth and alphabet (ids never contain the ; separator).', 'DESIGN.md section 4 C15'),
 'C05': ('hist', 'explicit-state exploration of histories; every distinct state is round-tripped through STAM JSON (pretty, compact, @include stand-off files) and compared item by item; plus an exhaustive value/identifier sweep',
         'Every distinct store state reached by the history exploration (incl. gaps after removals, id-less items, all selector kinds, range-compressed complex selectors, multi-byte text) is serialised and reloaded; resources, datasets, keys, typed values, annotation order, ids, target kinds, referenced items, offsets and alignment and data references must be identical, and the second serialisation byte-identical. Shallow states are additionally laid out as stand-off files. A sweep round-trips one store per value of all DataValue types and per awkward string used as value / key id / data id / annotation id.',
         'Bounded depth and alphabet; sub-store (@include of stores) level is not covered yet. Id-less items are compared by rank.', 'DESIGN.md section 4 C05'),
 'C14': ('hist', 'explicit-state exploration of histories; in every reached state every invalid request of a menu is issued through three entry points and the full public observation is compared before/after',
         'In every state reached by the history exploration (depth 3 quick / 4 thorough) each of 17 kinds of invalid request is issued directly, in the middle of a 3-element batch and from a JSON file; whenever the call returns Err the complete public observation (content, known text selections, segmentation, raw lengths, index sizes, id lookups) must equal the one before, and the corrected request must then produce exactly the store it produces on the untouched state.',
         'Bounded depth / alphabet / menu of invalid requests (c14::invalid_menu). Requests the library accepts are outside this property.', 'DESIGN.md section 4 C14'),
 'C01': ('hist', 'explicit-state exploration of operation histories on the real store in lock-step with a reference model; state matching on the complete internal dump; per state every reverse accessor is compared with a scan of the forward references',
         'Every history of valid operations (annotate with all nine selector kinds, relative offsets, range-compressed complex selectors; remove annotation/data/key/resource/dataset, strict and non-strict) up to depth 4 (quick) / 5 (thorough) is executed on the real store and on the model; in every reached state all reverse lookups named in the property plus index_totalcount must equal what a scan of the live annotations forward references gives, and the forward references must equal what the builder resolved to.',
         'Bounded depth and alphabet (hist.rs enabled_ops). Trusted: model.rs (documented semantics), observe.rs (own walk over the public Selector enum), hook H1 for state matching only.', 'DESIGN.md section 4 C01'),
 'C02': ('hist', 'explicit-state exploration of operation histories; transition oracle on every removal: model cascade vs real survivors, plus no-dangling probes (iteration, queries, to_json_string)',
         'Same exploration as C01; for every removal transition enabled in every reached state: Ok whenever the item exists, the live annotations / data / keys afterwards are exactly the documented cascade (non-strict keeps annotations that still have data), nothing else changes, and every forward accessor, a query battery and JSON serialisation complete without error.',
         'Bounded depth and alphabet. Trusted: model.rs cascade rules (transcribed from the rustdoc of remove_*).', 'DESIGN.md section 4 C02'),
 'C03': ('hist', 'explicit-state exploration of histories with per-state exhaustive id lookups and duplicate-id / reindex / strip-ids probes, plus exhaustive enumeration of lookup strings up to a length bound',
         'In every reached state every identifier that ever existed, fixed never-used ids and all temporary ids of every letter are looked up as every kind through the accessors and resolve_* functions and compared with the model (live item carrying that id, else nothing); probes re-check after duplicate-id insertion, reindex() and strip ids; all strings of length <= 3/4 over a 12-symbol alphabet (incl. multi-byte upper-case letters) are looked up in a fixed store.',
         'Bounded depth, alphabet and string length. Temporary-id syntax assumed to be "!" + kind letter + decimal handle.', 'DESIGN.md section 4 C03'),
 'C13': ('enum', 'bounded-exhaustive enumeration of all pairs of ranges / sets x all operator variants against interval-arithmetic definitions and algebraic laws (small-scope model checking of the relation code)',
         'Every ordered pair of ranges and every ordered pair of sets (<=2 ranges quick, <=3 thorough) over short texts, crossed with all 104 operator variants, is evaluated on the real test()/test_set() functions through all five receivers and compared with an executable reading of the documentation plus the converse / symmetry / complement / implication / singleton laws. Exhaustive within the stated bounds, no sampling.',
         'Bounded: texts of 4-6 codepoints, sets of at most 3 ranges. Trusted: the interval-arithmetic transcription of the doc comments (c13.rs: pair_def/set_def).', 'DESIGN.md section 4 C13'),
}
NOT_YET = {}
props = [json.loads(l) for l in open('/verif/properties.jsonl')]
checks = []
na = []
for p in props:
    pid = p['id']
    if pid in CHECKS:
        eng, tech, text, note, ref = CHECKS[pid]
        checks.append({
          'property_id': pid,
          'quick_cmd': f'bin/check {pid} quick',
          'thorough_cmd': f'bin/check {pid} thorough',
          'evidence_file': f'/verif/evidence/{pid}.json',
          'replay_cmd_template': f'bin/check {pid} quick --replay {{path}}',
          'engine': eng,
          'level_claimed': {'category': 'model_checking', 'text': text, 'design_ref': ref},
          'level_note': note,
          'technique': tech,
        })
    else:
        na.append({'property_id': pid, 'reason': NOT_YET.get(pid, 'check not built yet in this state of /verif (work in progress; a bounded exhaustive check is designed in DESIGN.md section 4)')})
ENGINES = [
 {'name':'enum','path':'/verif/mc/src','serves_properties':[c['property_id'] for c in checks if c['engine']=='enum'],'kind_free_text':'bounded-exhaustive input enumeration against an executable specification'},
 {'name':'hist','path':'/verif/mc/src','serves_properties':[c['property_id'] for c in checks if c['engine']=='hist'],'kind_free_text':'explicit-state exploration of operation histories on the real store in lock-step with a reference model, state matching on a canonical dump'},
 {'name':'query','path':'/verif/mc/src','serves_properties':[c['property_id'] for c in checks if c['engine']=='query'],'kind_free_text':'bounded-exhaustive enumeration of query programs x small stores with differential and reference oracles'},
 {'name':'sched','path':'/verif/mc/src','serves_properties':[c['property_id'] for c in checks if c['engine']=='sched'],'kind_free_text':'stateless exploration of thread schedules of the real code under a controlled scheduler with iterative preemption bounding'},
 {'name':'mutload','path':'/verif/mc/src','serves_properties':[c['property_id'] for c in checks if c['engine']=='mutload'],'kind_free_text':'exhaustive 1- and 2-deviation mutation space of seed documents loaded by the real loaders in isolated workers'},
]
m = {
 'version': 1,
 'setup_cmd': 'cd /verif/mc && CARGO_NET_OFFLINE=true cargo build --offline --profile mc',
 'hooks': {
   'guard': 'cargo feature verif-hooks (crate stam)',
   'enable': 'the harness crate /verif/mc depends on stam = { path = "/repo", features = ["verif-hooks"] }; bin/check rebuilds it from the working tree on every invocation',
   'baseline_off_cmd': 'cd /repo && cargo test --workspace --no-fail-fast --offline',
   'source_commits': hook_shas,
   'add_only': True,
 },
 'engines': [e for e in ENGINES if e['serves_properties']],
 'checks': checks,
 'not_applicable': na,
 'notes': 'All checks are run through bin/check <id> <tier>; exit 0 = held (KNOWN-FINDING lines list recorded genuine defects from KNOWN_FINDINGS.txt), exit 1 = VIOLATION, exit 2 = machinery failure (e.g. /repo does not compile). See DESIGN.md.',
}
json.dump(m, open('/verif/MANIFEST.json','w'), indent=1)
print('checks:', [c['property_id'] for c in checks], 'not_applicable:', len(na))
