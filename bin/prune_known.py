#!/usr/bin/env python3
"""prune_known.py <Cxx>...: development helper. Runs quick+thorough (through bin/check, i.e. rebuilt from /repo) and removes
`known:` lines of that property whose signature was not hit in either tier (a finding that no longer occurs must not stay listed)."""
import json, subprocess, sys
for prop in sys.argv[1:]:
    hit=set()
    for tier in ('quick','thorough'):
        subprocess.run(['/verif/bin/check',prop,tier],stdout=subprocess.DEVNULL)
        ev=json.load(open(f'/verif/evidence/{prop}.json'))
        hit|=set(ev['coverage'].get('known_finding_hits',{}).keys())
    lines=open('/verif/KNOWN_FINDINGS.txt').read().split('\n')
    out=[];removed=0
    for l in lines:
        if l.startswith(f'known: property={prop} sig='):
            sig=l[len(f'known: property={prop} sig='):].split(' :: ')[0]
            if sig not in hit:
                removed+=1
                print('removing', sig[:150])
                continue
        out.append(l)
    open('/verif/KNOWN_FINDINGS.txt','w').write('\n'.join(out))
    print(prop,'removed',removed,'kept',len([l for l in out if l.startswith(f'known: property={prop} ')]))
    subprocess.run(['/verif/bin/check',prop,'quick'],stdout=subprocess.DEVNULL)
