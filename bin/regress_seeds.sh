#!/bin/bash
# regress_seeds.sh [tier] [name-filter]  -- apply every kept seeded change to /repo in turn, run the check(s) of its
# property in the given tier (plus any extra check named in meta.json "also"), revert; prints caught / MISSED per seed.
T=${1:-quick}; F=${2:-}
cd /repo || exit 2
if [ -n "$(git status --porcelain --untracked-files=no)" ]; then echo "repo dirty, refusing"; exit 2; fi
for d in /verif/seeded/*${F}*/; do
  name=$(basename $d); prop=$(jq -r '.caught_by_check_of // .property' $d/meta.json)
  if [ "$(jq -r '.obsolete // false' $d/meta.json)" = "true" ]; then echo "$name: skipped (obsolete: no longer breaks the property on the repaired tree, see meta.json)"; continue; fi
  git apply $d/patch.diff 2>/dev/null || { echo "$name: PATCH DOES NOT APPLY"; continue; }
  out=$(/verif/bin/check $prop $T 2>&1); rc=$?
  git checkout -- .
  if [ $rc -eq 1 ] && echo "$out" | grep -aq "^VIOLATION property=$prop"; then
    echo "$name: caught by $prop $T ($(echo "$out" | grep -a '^  signature:' | head -1 | cut -c14-130))"
  else
    if [ "$(jq -r '.missed // false' $d/meta.json)" = "true" ]; then echo "$name: not caught by $prop $T (recorded as a miss, see meta.json and DESIGN.md 9.7)"; else echo "$name: MISSED by $prop $T (exit=$rc)"; fi
  fi
done
(cd /verif/mc && cargo build --offline --profile mc >/dev/null 2>&1)
