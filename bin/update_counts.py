#!/usr/bin/env python3
"""update_counts.py <out.json> [tiers] [props]  -- development helper: run the checks in list mode on the unchanged tree and
record, per property / tier / listed known signature, the number of failing cases. The committed KNOWN_COUNTS.json is what
the checks compare against (a known finding that fails on MORE inputs than recorded is reported as a violation)."""
import json, subprocess, sys, re
out = sys.argv[1]
tiers = sys.argv[2].split(',') if len(sys.argv) > 2 else ['quick', 'thorough']
props = sys.argv[3].split(',') if len(sys.argv) > 3 else ['C%02d' % i for i in range(1, 21)]
if subprocess.run(['git', '-C', '/repo', 'status', '--porcelain', '--untracked-files=no'], capture_output=True, text=True).stdout.strip():
    sys.exit('repo dirty, refusing')
try:
    res = json.load(open(out))
except Exception:
    res = {}
for p in props:
    for t in tiers:
        r = subprocess.run(['/verif/bin/check', p, t, '--list-signatures'], capture_output=True)
        text = r.stdout.decode('utf-8', 'replace')
        counts = {}
        for line in text.splitlines():
            m = re.match(r'^(?:known|GROWN) n=(\d+)\s+sig=(.*?) :: ', line)
            if m:
                counts[m.group(2)] = int(m.group(1))
        res.setdefault(p, {})[t] = counts
        print(p, t, len(counts), 'signatures', sum(counts.values()), 'cases', flush=True)
json.dump(res, open(out, 'w'), indent=0, sort_keys=True)
