#!/bin/bash
# try_seed.sh <patch.diff> <Cxx> [tier]   -- apply a seeded change to /repo, run the check, always revert
set -u
P=$1; ID=$2; T=${3:-quick}
cd /repo || exit 2
if [ -n "$(git status --porcelain --untracked-files=no)" ]; then echo "repo dirty, refusing"; exit 2; fi
git apply "$P" || { echo "patch does not apply"; exit 2; }
/verif/bin/check $ID $T > /tmp/try_seed.out 2>&1; rc=$?
git checkout -- . 
# rebuild from the clean tree so that no later direct use of the binary sees the seeded build
(cd /verif/mc && cargo build --offline --profile mc >/dev/null 2>&1)
grep -E "^VIOLATION|^  (signature|detail)|MACHINERY|^C[0-9]+ " /tmp/try_seed.out | head -${LINES_MAX:-12}
echo "exit=$rc"
