#!/bin/bash
# emit_known.sh <Cxx> [tiers...]  -- development helper: print `known:` lines for every failing signature not yet listed.
# Always goes through bin/check so that the binary is rebuilt from /repo's current tree (never a stale seeded build).
ID=$1; shift; TIERS=${@:-quick thorough}
if [ -n "$(git -C /repo status --porcelain --untracked-files=no)" ]; then echo "repo dirty, refusing" >&2; exit 2; fi
for t in $TIERS; do VERIF_EMIT_KNOWN=1 /verif/bin/check $ID $t --list-signatures | grep -a "^known:"; done | awk -F' :: ' '!seen[$1]++' | sort | cut -c1-600
