#!/bin/bash
# emit_known.sh <Cxx> [tiers...]  -- development helper: print `known:` lines for every failing signature not yet listed
ID=$1; shift; TIERS=${@:-quick thorough}
for t in $TIERS; do VERIF_EMIT_KNOWN=1 /verif/mc/target/mc/verif-mc $ID $t --list-signatures 2>/dev/null | grep "^known:"; done | awk -F' :: ' '!seen[$1]++' | sort | cut -c1-600
