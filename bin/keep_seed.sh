#!/bin/bash
# keep_seed.sh <Cxx> <name> "<needs>" "<caught-by>"  -- copy a confirmed seeded change from /tmp/seedout/<Cxx> into /verif/seeded/<name>
ID=$1; NAME=$2; NEEDS=$3; CAUGHT=$4
D=/verif/seeded/$NAME; mkdir -p $D
cp /tmp/seedout/$ID/patch.diff $D/patch.diff
cp /tmp/seedout/$ID/demo.rs $D/demo.rs
cp /tmp/seedout/$ID/notes.md $D/notes.md 2>/dev/null
python3 - "$ID" "$NEEDS" "$CAUGHT" > $D/meta.json <<'PY'
import json,sys
print(json.dumps({"property":sys.argv[1][:3],"needs_to_manifest":sys.argv[2],
 "confirmed":"applied patch.diff in a scratch worktree of /repo: `cargo test --offline` (existing suite) passes; tests/seeded_demo.rs (= demo.rs) fails with the patch and passes without it",
 "check_result":sys.argv[3]},indent=1))
PY
