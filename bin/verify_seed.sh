#!/bin/bash
# verify_seed.sh <Cxx>  -- confirm a seeded change left by a sub-agent in /tmp/wt/<Cxx> (patch applied + tests/seeded_demo.rs)
ID=$1; W=/tmp/wt/$ID
cd $W || exit 2
export CARGO_NET_OFFLINE=true
echo "== suite with change"
cargo test --offline --no-fail-fast 2>&1 | grep -E "^test .*FAILED|^test result" | grep -v seeded | head -20
echo "== demo with change (expect FAILED)"
cargo test --offline --test seeded_demo 2>&1 | grep -E "^test result"
git diff -- src > /tmp/seedout/$ID/patch.verify.diff
cmp -s /tmp/seedout/$ID/patch.verify.diff /tmp/seedout/$ID/patch.diff && echo "patch.diff matches worktree" || echo "WARNING patch.diff differs from worktree diff"
git apply -R /tmp/seedout/$ID/patch.diff
echo "== demo without change (expect ok)"
cargo test --offline --test seeded_demo 2>&1 | grep -E "^test result"
git apply /tmp/seedout/$ID/patch.diff
