#!/bin/bash
# selftest.sh -- replay every committed witness of a recorded finding (replays/known/<Cxx>/*.json) through the oracle code,
# without the explorer, and require that it still fails with the recorded signature. A witness that no longer fails means the
# defect was repaired (move its entry to `fixed:`) or the oracle changed.
cd /verif/mc && cargo build --offline --profile mc >/dev/null 2>&1 || { echo "MACHINERY: build failed"; exit 2; }
ok=0; bad=0
for f in /verif/replays/known/*/*.json; do
  prop=$(basename $(dirname $f)); sig=$(jq -r .signature $f); tier=$(jq -r .tier $f)
  out=$(/verif/mc/target/mc/verif-mc $prop $tier --replay $f 2>/dev/null)
  if echo "$out" | grep -aF -- "sig=$sig ::" | grep -aqE "^(known|GROWN|NEW) "; then ok=$((ok+1)); else bad=$((bad+1)); echo "NOT REPRODUCED: $f ($sig)"; fi
done
echo "selftest: $ok witnesses reproduced, $bad not reproduced"
[ $bad -eq 0 ]
