#!/bin/bash
# run_all.sh [tier]  -- run every check of MANIFEST.json in the given tier, one summary line each
T=${1:-quick}
for n in 01 02 03 04 05 06 07 08 09 10 11 12 13 14 15 16 17 18 19 20; do
  s=$(date +%s.%N)
  out=$(/verif/bin/check C$n $T 2>&1); rc=$?
  e=$(date +%s.%N)
  echo "$out" | grep -a "^C$n \|^VIOLATION\|MACHINERY" | head -5 | cut -c1-220
  printf "   exit=%d total=%.1fs\n" $rc $(echo "$e - $s" | bc)
done
